"""ENTRY table: the public API x argument carriers, as thin extern "C" wrappers.

Wrappers contain no logic; they only force instantiation and give every entry
point a scalar signature.  All analysed code is /repo's.
"""

M = (1 << 63) - 1

INTS = ["i8", "i16", "i32", "i64", "u8", "u16", "u32", "u64"]
FLTS = ["f32", "f64"]
CARRIERS = INTS + FLTS
CTYPE = {"i8": "int8_t", "i16": "int16_t", "i32": "int32_t", "i64": "int64_t", "u8": "uint8_t", "u16": "uint16_t",
         "u32": "uint32_t", "u64": "uint64_t", "f32": "float", "f64": "double", "fx": "int64_t", "sh": "int",
         "bool": "bool"}
BITS = {"i8": 8, "i16": 16, "i32": 32, "i64": 64, "u8": 8, "u16": 16, "u32": 32, "u64": 64}


def tmin(t):
    return -(1 << (BITS[t] - 1)) if t[0] == "i" else 0


def tmax(t):
    return (1 << (BITS[t] - 1)) - 1 if t[0] == "i" else (1 << BITS[t]) - 1


def domain(kind):
    """C07 precondition box for a parameter kind, in the *signed* representation the IR uses"""
    if kind == "fx":
        return ("i", -M, M)
    if kind == "sh":
        return ("i", -(1 << 31), 63)
    if kind in BITS:
        b = BITS[kind]
        return ("i", -(1 << (b - 1)), (1 << (b - 1)) - 1)
    if kind in ("f32", "f64"):
        return ("f",)
    raise ValueError(kind)


class Entry:
    def __init__(self, name, params, ret, body, api, group):
        self.name = name
        self.params = params      # list of kinds
        self.ret = ret            # kind
        self.body = body          # C++ expression/body using a,b
        self.api = api            # public function/operator this wrapper exercises
        self.group = group

    def source(self):
        ps = ", ".join("%s %s" % (CTYPE[k], "ab"[i]) for i, k in enumerate(self.params))
        return "%s %s(%s){ %s }" % (CTYPE[self.ret], self.name, ps, self.body)


def V(x):
    return "as_fixed(%s)" % x


def entries():
    E = []

    def add(name, params, ret, body, api, group):
        E.append(Entry("w_" + name, params, ret, body, api, group))

    # ---- conversions to fixed
    for t in CARRIERS:
        add("ctor_" + t, [t], "fx", "return fixed_t(a).v;", "fixed_t::fixed_t", "conv")
        add("a2f_" + t, [t], "fx", "return arithmetic_to_fixed(a).v;", "arithmetic_to_fixed", "conv")
        add("mk_" + t, [t], "fx", "return make_fixed(a).v;", "make_fixed", "conv")
    for t in INTS:
        add("i2f_" + t, [t], "fx", "return integral_to_fixed(a).v;", "integral_to_fixed", "conv")
    for t in FLTS:
        add("fp2f_" + t, [t], "fx", "return floating_point_to_fixed(a).v;", "floating_point_to_fixed", "conv")
    add("lit_u", ["u64"], "fx", "return operator\"\"_fix(static_cast<unsigned long long>(a)).v;", "operator\"\"_fix(ull)", "conv")
    add("lit_ld", ["f64"], "fx", "return operator\"\"_fix(static_cast<long double>(a)).v;", "operator\"\"_fix(long double)", "conv")
    # ---- conversions from fixed
    for t in INTS:
        add("f2i_" + t, ["fx"], t, "return fixed_to_integral<%s>(%s);" % (CTYPE[t], V("a")), "fixed_to_integral", "conv")
    for t in FLTS:
        add("f2fp_" + t, ["fx"], t, "return fixed_to_floating_point<%s>(%s);" % (CTYPE[t], V("a")), "fixed_to_floating_point", "conv")
    for t in CARRIERS:
        add("f2a_" + t, ["fx"], t, "return fixed_to_arithmetic<%s>(%s);" % (CTYPE[t], V("a")), "fixed_to_arithmetic", "conv")
        add("cast_" + t, ["fx"], t, "return static_cast<%s>(%s);" % (CTYPE[t], V("a")), "fixed_t::operator T", "conv")
    # ---- unary / comparisons / bit ops
    add("neg", ["fx"], "fx", "return (-%s).v;" % V("a"), "operator-(unary)", "basic")
    add("abs", ["fx"], "fx", "return abs(%s).v;" % V("a"), "abs", "basic")
    add("isnan", ["fx"], "bool", "return isnan(%s);" % V("a"), "isnan", "basic")
    for nm, op in (("eq", "=="), ("ne", "!="), ("lt", "<"), ("le", "<="), ("gt", ">"), ("ge", ">=")):
        add("cmp_" + nm, ["fx", "fx"], "bool", "return %s %s %s;" % (V("a"), op, V("b")), "operator" + op, "basic")
    add("shr", ["fx", "sh"], "fx", "return (%s >> b).v;" % V("a"), "operator>>", "shift")
    add("shl", ["fx", "sh"], "fx", "return (%s << b).v;" % V("a"), "operator<<", "shift")
    add("and", ["fx", "fx"], "fx", "return (%s & %s).v;" % (V("a"), V("b")), "operator&", "shift")
    for nm in ("min", "lowest", "max", "one", "epsilon", "round_error", "quiet_NaN"):
        add("lim_" + nm, [], "fx", "return std::numeric_limits<fixed_t>::%s().v;" % nm, "numeric_limits::" + nm, "basic")
    add("lim_max_integral", [], "i32", "return std::numeric_limits<fixed_t>::max_integral();", "numeric_limits::max_integral", "basic")
    add("lim_min_integral", [], "i32", "return std::numeric_limits<fixed_t>::min_integral();", "numeric_limits::min_integral", "basic")
    # ---- arithmetic
    OPS = (("add", "+", "fixed_addition"), ("sub", "-", "fixed_substract"), ("mul", "*", "fixed_multiply"),
           ("div", "/", "fixed_division"))
    for nm, op, fnn in OPS:
        add(nm + "_ff", ["fx", "fx"], "fx", "return (%s %s %s).v;" % (V("a"), op, V("b")), "operator" + op, "arith")
        add(nm + "fn_ff", ["fx", "fx"], "fx", "return %s(%s, %s).v;" % (fnn, V("a"), V("b")), fnn, "arith")
        add(nm + "eq_ff", ["fx", "fx"], "fx", "fixed_t x{%s}; x %s= %s; return x.v;" % (V("a"), op, V("b")), "operator%s=" % op, "arith")
        for t in CARRIERS:
            if t == "f64":
                add(nm + "_f_" + t, ["fx", t], "f64", "return %s %s b;" % (V("a"), op), "operator" + op, "arith")
                add(nm + "_" + t + "_f", [t, "fx"], "f64", "return a %s %s;" % (op, V("b")), "operator" + op, "arith")
            else:
                add(nm + "_f_" + t, ["fx", t], "fx", "return (%s %s b).v;" % (V("a"), op), "operator" + op, "arith")
                add(nm + "_" + t + "_f", [t, "fx"], "fx", "return (a %s %s).v;" % (op, V("b")), "operator" + op, "arith")
            add(nm + "eq_f_" + t, ["fx", t], "fx", "fixed_t x{%s}; x %s= b; return x.v;" % (V("a"), op), "operator%s=" % op, "arith")
    # ---- misc
    add("ceil", ["fx"], "fx", "return ceil(%s).v;" % V("a"), "ceil", "misc")
    add("floor", ["fx"], "fx", "return floor(%s).v;" % V("a"), "floor", "misc")
    for t in INTS:
        add("a2r_" + t, [t], "fx", "return angle_to_radians(a).v;", "angle_to_radians", "angle")
    add("sqrt", ["fx"], "fx", "return sqrt(%s).v;" % V("a"), "sqrt", "sqrt")
    add("sqrt_abacus", ["fx"], "fx", "return detail::sqrt_abacus(%s).v;" % V("a"), "detail::sqrt_abacus", "sqrt")
    add("sqrt_std", ["fx"], "fx", "return detail::sqrt_std_math(%s).v;" % V("a"), "detail::sqrt_std_math", "sqrt")
    add("hypot", ["fx", "fx"], "fx", "return hypot(%s, %s).v;" % (V("a"), V("b")), "hypot", "sqrt")
    for f in ("sin", "cos", "tan", "atan", "asin", "acos"):
        add(f, ["fx"], "fx", "return %s(%s).v;" % (f, V("a")), f, "trig")
    add("atan2", ["fx", "fx"], "fx", "return atan2(%s, %s).v;" % (V("a"), V("b")), "atan2", "trig")
    for f in ("sin_angle", "cos_angle", "tan_angle"):
        add(f + "_fx", ["fx"], "fx", "return %s(%s).v;" % (f, V("a")), f, "angle")
        for t in CARRIERS:
            add(f + "_" + t, [t], "fx", "return %s(a).v;" % f, f, "angle")
    add("sin_angle_aprox", ["i32"], "fx", "return sin_angle_aprox(a).v;", "sin_angle_aprox", "table")
    add("cos_angle_aprox", ["i32"], "fx", "return cos_angle_aprox(a).v;", "cos_angle_aprox", "table")
    add("sqrt_aprox", ["fx"], "fx", "return sqrt_aprox(%s).v;" % V("a"), "sqrt_aprox", "table")
    add("hypot_aprox", ["fx", "fx"], "fx", "return hypot_aprox(%s, %s).v;" % (V("a"), V("b")), "hypot_aprox", "table")
    add("atan_index_aprox", ["fx"], "fx", "return atan_index_aprox(%s).v;" % V("a"), "atan_index_aprox", "table")
    add("atan_aprox", ["fx"], "fx", "return atan_aprox(%s).v;" % V("a"), "atan_aprox", "table")
    return E


HEADER = """#include <fixedmath/fixed_math.hpp>
#include <limits>
using namespace fixedmath;
extern "C" {
"""

CONTROL = """
// positive control: must be reported reachable on every run
int64_t c_control_overflow(int64_t a, int64_t b){ return a + b; }
"""


def driver_source(ents, extra=""):
    lines = [HEADER]
    for e in ents:
        lines.append(e.source())
    lines.append(CONTROL)
    lines.append(extra)
    lines.append("}\n")
    return "\n".join(lines)


# APIs that are deliberately not wrapped (reason recorded in evidence)
EXCLUDED = {
    "operator<<(ostream)": "stream inserter (I/O), iostream.h",
    "square_root_tab": "internal table accessor declared for the compiled unit; reached through sqrt_aprox/hypot_aprox",
    "tan_tab": "internal table accessor; reached through atan_index_aprox",
    "sin_angle_tab": "internal table accessor (index contract 0..360); reached through sin_angle_aprox",
    "cos_angle_tab": "internal table accessor (index contract 0..360); reached through cos_angle_aprox",
    "as_fixed": "raw constructor used by every wrapper",
    "quiet_NaN_result": "constant helper, covered by lim_quiet_NaN",
}
