"""C15: floor and ceil bracket their argument with integer values (decided in full)."""
from . import common, lib
from .lib import M, E, sym
from fxai.interp import Broken

D = (1 << 63) - 65536            # |x.v| < 2^63 - 65536   <=>  |x| < 2^47 - 1
DOM = ("i", -(D - 1), D - 1)
EXTRA = [
    E("w_negfloorneg", ["fx"], "fx", "return (-floor(-as_fixed(a))).v;"),
    E("w_floor_int", ["i64"], "fx", "return floor(as_fixed(a * 65536)).v;"),
    E("w_ceil_int", ["i64"], "fx", "return ceil(as_fixed(a * 65536)).v;"),
]
INTDOM = ("i", -((1 << 47) - 2), (1 << 47) - 2)


def fl(x):
    return x - (x % 65536)


def run(tier, seed):
    V = common.Verdict("C15", tier, seed)
    configs = ["K17", "K20"] if tier == "quick" else ["K17", "K20"]
    for cfg in configs:
        try:
            ctx = lib.Ctx(cfg, EXTRA, lowbits_canon=True)
            x = sym(0)
            r = ctx.run("w_floor", [DOM])
            lib.check_regions(V, r, [("domain", [], ("diff", 1, x, -65535, 0)), ("integer", [], ("tz", 16))],
                              lambda a, o: o != ("ret", fl(a[0])), "floor(x) <= x < floor(x)+1, integer valued", site="floor")
            r2 = ctx.run("w_ceil", [DOM])
            lib.check_regions(V, r2, [("domain", [], ("diff", 1, x, 0, 65535)), ("integer", [], ("tz", 16)),
                                      ("not-NaN", [], ("range", -(M - 1), M - 1))],
                              lambda a, o: o != ("ret", -fl(-a[0])), "ceil(x)-1 < x <= ceil(x), integer valued, not NaN", site="ceil")
            lib.check_equiv(V, r2, ctx.run("w_negfloorneg", [DOM]), "ceil(x) == -floor(-x)", site="ceil")
            n65536 = sym(0).scale(65536)
            lib.check_regions(V, ctx.run("w_floor_int", [INTDOM]), [("integral", [], ("lin", n65536))],
                              lambda a, o: o != ("ret", a[0] * 65536), "floor(n) == n for integral n", site="floor")
            lib.check_regions(V, ctx.run("w_ceil_int", [INTDOM]), [("integral", [], ("lin", n65536))],
                              lambda a, o: o != ("ret", a[0] * 65536), "ceil(n) == n for integral n", site="ceil")
        except Broken as e:
            V.broke("%s: %s" % (cfg, e))
    expl = ("On |x.v| < 2^63-65536: floor returns x - r with r = low 16 bits of x (so floor(x) <= x < floor(x)+1 and the value is a "
            "multiple of 2^16); ceil returns a multiple of 2^16 with 0 <= ceil(x)-x <= 65535 and never the NaN constant; on arguments "
            "n*65536 both return the argument itself; ceil(x) == -floor(-x) by summary equivalence (the low-bit symbols of x, -x and "
            "x+65535 are canonicalised to one symbol, with an explicit carry case split).")
    return V.finish("proof", expl, "./fx check C15 --tier %s" % tier, extra={"configs": configs})
