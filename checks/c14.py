"""C14: hypot is symmetric, never NaN/negative on the domain, and computed without intermediate wrap (decided);
the 2 ulp / 1.5e-4 accuracy bounds from the exact-real value and a deviation interval (checks/fxdev.py)."""
import random
from . import common, lib
from .lib import M, E, sym
from fxai.interp import Broken
from fxai.conc import Conc
from fxai import ir as IR

T47 = (1 << 47) - 1
DOM = ("i", -T47, T47)
A, B = "as_fixed(a)", "as_fixed(b)"
EXTRA = [
    E("w_hypot_sw", ["fx", "fx"], "fx", "return hypot(%s, %s).v;" % (B, A)),
    E("w_hypot_abs", ["fx", "fx"], "fx", "return hypot(abs(%s), abs(%s)).v;" % (A, B)),
]


def src_line(mod, inst, repo):
    ch = IR.dbg_chain(mod, inst.dbg)
    if not ch:
        return "?", "?"
    fn, f, ln = ch[0][:3]
    # a lambda or helper defined inside / inlined into hypot still belongs to hypot's own arithmetic
    if any(ent[0] == "hypot" for ent in ch):
        fn = "hypot"
    import os
    path = f if os.path.isabs(f) else os.path.join(repo, f)
    try:
        text = open(path, errors="replace").read().split("\n")[ln - 1].strip()
    except Exception:
        text = "line %d" % ln
    return fn, " ".join(text.split())


def run(tier, seed):
    V = common.Verdict("C14", tier, seed)
    plan = ["K17", "K17A", "K20"]
    from fxai import pipeline as P
    for cfg in plan:
        try:
            # under the abacus build the sqrt loop is a verified integer square root (fxai.isqrt): the engine applies the summary
            # isqrt(N), a value-numbered term, so that the programs compared for symmetry share it
            ctx = lib.Ctx(cfg, EXTRA, only={"w_hypot", "w_hypot_sw", "w_hypot_abs"}, summaries=(cfg == "K17A"))
            r = ctx.run("w_hypot", [DOM, DOM])
            if len(r.paths) < 50:
                V.broke("w_hypot: only %d paths" % len(r.paths))
            if cfg == "K17A":
                nsum = r.stats.get("loop_summaries", 0)
                V.oblige(nsum > 0)
                V.cover.setdefault("abacus_summaries_applied", {})[cfg] = nsum
                if not nsum:
                    V.inconc("w_hypot [%s]: the sqrt loop was not recognised as a verified integer square root (%s)" % (cfg, r.an.isqrt_why))
            if cfg != "K17A" or r.stats.get("loop_summaries", 0):
                lib.check_equiv(V, r, ctx.run("w_hypot_sw", [DOM, DOM]), "hypot(a,b) == hypot(b,a)", site="hypot")
                lib.check_equiv(V, r, ctx.run("w_hypot_abs", [DOM, DOM]), "hypot(a,b) == hypot(|a|,|b|)", site="hypot")
            # never NaN, never negative
            lib.check_regions(V, r, [("domain", [], ("range", 0, M - 1))], lambda a, o: o[0] != "ret" or not (0 <= o[1] < M),
                              "hypot is never NaN or negative for |a|,|b| < 2^31", site="hypot")
            for a in r.alarms:
                if a.status == "violation":
                    V.oblige(False)
                    V.violation(a.kind, a.site, "%s in w_hypot(%s) [%s] at %s" % (a.kind, a.witness, cfg, a.where), lib.rp(r, a.witness, a.kind))
                elif a.status == "inconclusive":
                    V.inconc("w_hypot [%s]: %s at %s unresolved" % (cfg, a.kind, a.where))
            # no intermediate (unsigned) wrap in hypot's own arithmetic
            fn = r.an.fn
            lines = {}
            for b in fn.blocks.values():
                for i in b.insts:
                    if i.op in ("mul", "add", "shl") and "nsw" not in i.attrs:
                        f, text = src_line(r.an.mod, i, P.REPO)
                        if f == "hypot":
                            lines[i.line] = (i, text)
            if len(lines) < 6:
                V.broke("w_hypot [%s]: only %d wrapping arithmetic instructions attributed to hypot (expected >= 6)" % (cfg, len(lines)))
            events = [n for p in r.paths for n in p.state.notes if n[0] == "uwrap"] + [n for n in r.res.dropped_notes if n[0] == "uwrap"]
            may = {}
            for (_, ln, op, lo, hi) in events:
                if ln in lines:
                    may.setdefault(ln, []).append((lo, hi))
            for ln, (i, text) in sorted(lines.items()):
                if ln not in may:
                    V.oblige(True)
                    continue
                # confirm with a concrete input that makes this instruction wrap
                cx = Conc(r.an)
                cx.uwraps = set()
                rnd = random.Random(seed)
                wit = None
                cands = []
                for p in r.paths:
                    if any(n[0] == "uwrap" and n[1] == ln for n in p.state.notes):
                        cands.append(p.state)
                budget = 1500
                from fxai.witness import candidates
                for st in cands[:12]:
                    for args in candidates(r.an, st, rnd, 120):
                        budget -= 1
                        cx.uwraps.clear()
                        out = cx.run(args)
                        if ln in cx.uwraps:
                            wit = (args, out)
                            break
                    if wit or budget < 0:
                        break
                V.oblige(False)
                site = "hypot@" + text
                # a recorded finding is identified by its input, not by source text: if the recorded arguments make this very
                # instruction wrap, the alarm is that finding
                import re as _re
                for (kp, kk, ks) in V.known:
                    m_ = _re.fullmatch(r"hypot@input\((-?\d+),(-?\d+)\)", ks or "")
                    if kp == "C14" and kk == "unsigned-wrap(%s)" % i.op and m_:
                        cx.uwraps.clear()
                        cx.run((int(m_.group(1)), int(m_.group(2))))
                        if ln in cx.uwraps:
                            site = ks
                if wit:
                    args, out = wit
                    V.violation("unsigned-wrap(%s)" % i.op, site, "hypot(%s) [%s]: '%s' wraps modulo 2^64 in '%s': the sum of squares handed to sqrt is "
                                "wrong, result %s" % (", ".join(map(str, args)), cfg, i.op, text, lib.out_str(out)), lib.rp(r, args, "no intermediate wrap"))
                else:
                    V.inconc("w_hypot [%s]: '%s' in '%s' may wrap modulo 2^64 (exact range up to %d) and no witness found" % (
                        cfg, i.op, text, max(h for _, h in may[ln])))
            if cfg in ("K17", "K17A") or tier != "quick":
                accuracy(V, ctx, cfg, lines, seed)
        except Broken as e:
            V.broke("%s: %s" % (cfg, e))
    expl = ("DECIDED on |a|,|b| < 2^47 raw: hypot(a,b) == hypot(b,a) == hypot(|a|,|b|) by summary equivalence of the inlined programs "
            "(under the abacus build the sqrt loop, a verified integer square root, enters as the value-numbered summary isqrt(N)); for K17, K17A and K20: the result interval is inside [0, max] on every path (never NaN, never negative); and "
            "every add/mul/shl that hypot itself performs on the unsigned operands stays below 2^64 (wrap events are recorded by the "
            "abstract interpreter per instruction; an instruction whose exact result range reaches 2^64 is confirmed by a concrete witness). "
            "Accuracy (non-negative quadrant; the other quadrants by the exact symmetry): on every path the exact-real value of the result - all "
            "floors, truncations and roundings removed, kept symbolically - is c*sqrt(P) with c^2 P == a^2 + b^2 as polynomials, i.e. exactly "
            "the function of the property, so there is no method error; the deviation of the actual result from it is bounded on boxes by "
            "propagating the ranges of the rounding noise (bits dropped by the scaling shifts and by >>16, the integer square root's (-1, 0] "
            "or the rounded std::sqrt's +-(1/2 + 2^-19)) through the operations with interval sensitivities: at most 2 raw units where both "
            "operands are below 2^30 raw, at most 1.5e-4 of the smallest true value of the box elsewhere. The paths on which hypot's own "
            "addition wraps (the recorded finding) are excluded from this clause: their exact-real value is not sqrt(a^2+b^2).")
    return V.finish("other", expl, "./fx check C14 --tier %s" % tier, extra={"configs": plan})


# ------------------------------------------------------------------ accuracy: 2 ulp / relative 1.5e-4
def _cuts(lo, hi, ratio_num=19, ratio_den=16):
    """cut [lo, hi] into cells whose ends grow geometrically (ratio 19/16) once past hi/64"""
    out = []
    a = lo
    first = max(lo, hi >> 6)
    if first > lo:
        out.append((lo, first - 1))
        a = first
    while a <= hi:
        b = min(hi, max(a, a * ratio_num // ratio_den))
        out.append((a, b))
        a = b + 1
    return out


def accuracy(V, ctx, cfg, hypot_lines, seed):
    from fractions import Fraction
    from . import fxdev
    from .fxnum import Unsupported, _sqrt_frac
    from fxai import pipeline as P
    import math
    r = ctx.run("w_hypot", [("i", 0, T47), ("i", 0, T47)])
    T30 = 1 << 30
    REL = Fraction(15, 100000)
    ncell = nskip = ngen = 0
    worst_abs = worst_rel = None
    fails = []          # (cell, path, why, definite)
    tiny = {}
    memo = {}
    xs, ys = sym(0), sym(1)
    target = fxdev.Poly.var(0, 2).mul(fxdev.Poly.var(0, 2)).add(fxdev.Poly.var(1, 2).mul(fxdev.Poly.var(1, 2)))
    for p in r.paths:
        st = p.state
        box = [st.bounds["p0"], st.bounds["p1"]]
        wraps_here = any(n[0] == "uwrap" and n[1] in hypot_lines for n in st.notes)
        npts = (box[0][1] - box[0][0] + 1) * (box[1][1] - box[1][0] + 1)
        # exact-real value on the path: ex >= 0 with ex^2 a polynomial; R = ex^2 - (a^2 + b^2) is the method error in squared form
        R = None
        why = ""
        try:
            ex, _ = fxdev.path_dev(p.ret, 2, box)
            if isinstance(ex, fxdev.SqrtOf) and ex.c >= 0:
                R = ex.p.scale(ex.c * ex.c).add(target.scale(-1))
            elif isinstance(ex, fxdev.Poly) and ex.rng(box)[0] >= 0:
                R = ex.mul(ex).add(target.scale(-1))
            else:
                why = "exact-real value %r is not a non-negative root or polynomial" % (ex,)
            if R is not None:
                for k in (0, 1):
                    if box[k][0] == box[k][1]:
                        R = R.subst(k, box[k][0])
        except Unsupported as e:
            why = str(e)
        if (R is None or not R.is_zero()) and npts <= 256:
            # a handful of tiny arguments, constant-folded by the engine: each point by constant propagation against the integer oracle
            for a in range(box[0][0], box[0][1] + 1):
                for b in range(box[1][0], box[1][1] + 1):
                    if (a, b) in tiny:
                        continue
                    rs = r.an.run(P.init_state(r.an.fn, [("i", a, a), ("i", b, b)]))
                    vs = set(lib.ret_rng(z) for z in rs.paths)
                    okp = False
                    if len(vs) == 1 and not rs.alarms:
                        l_, h_ = next(iter(vs))
                        t2 = a * a + b * b
                        okp = l_ == h_ and max(l_ - 2, 0) ** 2 <= t2 <= (l_ + 2) ** 2
                    tiny[(a, b)] = okp
                    V.oblige(okp)
                    ncell += 1
                    if not okp:
                        fails.append(([(a, a), (b, b)], p, "value at the argument pair not within 2 ulp by constant propagation", False))
            continue
        if R is None or not R.is_zero():
            if wraps_here:
                nskip += 1        # the recorded finding: hypot's own addition wraps on this path
                continue
            if R is None:
                V.oblige(False)
                fails.append((box, p, "exact-real value not available: %s" % why, False))
                continue
        general = not R.is_zero()
        if general:
            ngen += 1
        def decide(ca, cb, depth):
            """(status, D) for the cell: 'ok', 'skip' (not on the path / already done), 'definite', 'undecided'"""
            cell = [ca, cb]
            mk = (p.ret.lin.key(), ca, cb)
            if mk in memo:
                return "skip", None, None
            if general and lib.feasible_with(st, [(xs, ca[0], ca[1]), (ys, cb[0], cb[1])]) is None:
                memo[mk] = True
                return "skip", None, None
            small = ca[1] < T30 and cb[1] < T30
            mixed = not small and (ca[0] < T30 and cb[0] < T30)      # straddles the regime boundary: judged by the stricter bound
            tmin = _sqrt_frac(Fraction(ca[0]) ** 2 + Fraction(cb[0]) ** 2, False)
            tmax = _sqrt_frac(Fraction(ca[1]) ** 2 + Fraction(cb[1]) ** 2, True)
            allowed = Fraction(2) if small else (min(Fraction(2), REL * tmin) if mixed else REL * tmin)
            definite = False
            try:
                ex_c, dv = fxdev.path_dev(p.ret, 2, cell)
                D = max(abs(dv[0]), abs(dv[1]))
                if general:
                    rl, rh = R.rng(cell)
                    el, eh = fxdev.Dev(2, cell).ex_rng(ex_c)
                    rmin = Fraction(0) if rl <= 0 <= rh else min(abs(rl), abs(rh))
                    rmax = max(abs(rl), abs(rh))
                    dlo_ = el + tmin
                    mhi = rmax / dlo_ if dlo_ > 0 else None
                    mlo = rmin / (eh + tmax) if eh + tmax > 0 else Fraction(0)
                    ok = mhi is not None and D + mhi <= allowed
                    allowed_hi = max(Fraction(2), REL * tmax) if not small else Fraction(2)
                    definite = mlo - D > allowed_hi
                    D = D + mhi if mhi is not None else None
                else:
                    ok = D <= allowed
            except Unsupported as e:
                D, ok = None, False
            if ok:
                memo[mk] = True
                return "ok", D, (small, tmin)
            if definite:
                memo[mk] = False
                return "definite", D, allowed
            return "undecided", D, allowed

        work = [(ca, cb, 0) for ca in _cuts(*box[0]) for cb in _cuts(*box[1])]
        budget = 40000 if general else len(work)
        while work:
            ca, cb, depth = work.pop()
            status, D, aux = decide(ca, cb, depth)
            if status == "skip":
                continue
            ncell += 1
            budget -= 1
            if status == "ok":
                V.oblige(True)
                small, tmin = aux
                if small:
                    if worst_abs is None or D > worst_abs[0]:
                        worst_abs = (D, [ca, cb])
                elif tmin > 0:
                    q = D / tmin
                    if worst_rel is None or q > worst_rel[0]:
                        worst_rel = (q, [ca, cb])
                continue
            if status == "definite":
                V.oblige(False)
                fails.append(([ca, cb], p, "error at least beyond the allowed %s on every argument pair of the cell that takes this path" % float(aux), True))
                continue
            # undecided: bisect the relatively wider side (general paths only: there the method error needs finer cells)
            wa = (ca[1] + 1) / max(ca[0], 1)
            wb = (cb[1] + 1) / max(cb[0], 1)
            if general and depth < 40 and budget > 0 and (ca[0] < ca[1] or cb[0] < cb[1]):
                if (wa >= wb and ca[0] < ca[1]) or cb[0] == cb[1]:
                    m_ = math.isqrt(max(ca[0], 1) * (ca[1] + 1)) if ca[1] > 4 * max(ca[0], 1) else (ca[0] + ca[1]) // 2
                    m_ = min(max(m_, ca[0]), ca[1] - 1)
                    work.append(((ca[0], m_), cb, depth + 1))
                    work.append(((m_ + 1, ca[1]), cb, depth + 1))
                else:
                    m_ = math.isqrt(max(cb[0], 1) * (cb[1] + 1)) if cb[1] > 4 * max(cb[0], 1) else (cb[0] + cb[1]) // 2
                    m_ = min(max(m_, cb[0]), cb[1] - 1)
                    work.append((ca, (cb[0], m_), depth + 1))
                    work.append((ca, (m_ + 1, cb[1]), depth + 1))
                ncell -= 1
                continue
            V.oblige(False)
            fails.append(([ca, cb], p, "error bound %s, allowed %s" % (None if D is None else float(D), float(aux)), False))
    info = {"cells": ncell, "paths_with_wrapping_addition_excluded": nskip, "paths_with_method_error": ngen,
            "worst_abs_deviation_small_operands": None if worst_abs is None else [float(worst_abs[0]), worst_abs[1]],
            "worst_relative_deviation": None if worst_rel is None else [float(worst_rel[0]), worst_rel[1]]}
    V.cover.setdefault("accuracy", {})[cfg] = info
    if ncell < 500:
        V.broke("w_hypot [%s]: only %d accuracy cells" % (cfg, ncell))
    # failing cells: a concrete argument pair violating the clause makes it a violation, otherwise it stays undecided;
    # cells on which the violation is definite are tried first
    rnd = random.Random(seed)
    fails.sort(key=lambda f: not f[3])
    reported = False
    ninc = 0
    for cell, p, why, definite in fails[:60]:
        hit = None
        for _ in range(200):
            a = rnd.randint(*cell[0])
            b = rnd.randint(*cell[1])
            o = r.conc((a, b))
            if o[0] != "ret":
                hit = (a, b, o)
                break
            t2 = a * a + b * b
            lo_t, hi_t = math.isqrt(t2), math.isqrt(t2) + 1
            if a < T30 and b < T30:
                bad = o[1] < lo_t - 2 or o[1] > hi_t + 2
            else:
                bad = abs(o[1] - lo_t) * 100000 > 15 * hi_t + 100000
            if bad:
                hit = (a, b, o)
                break
        if hit:
            if not reported:
                reported = True
                V.violation("hypot within 2 ulp / relative 1.5e-4 of sqrt(a^2+b^2)", "hypot", "hypot(%d, %d) [%s] %s but sqrt(a^2+b^2) = %d.. (%s)" % (
                    hit[0], hit[1], cfg, lib.out_str(hit[2]), math.isqrt(hit[0] ** 2 + hit[1] ** 2), why), lib.rp(r, (hit[0], hit[1]), "hypot accuracy"))
            break
    if fails and not reported:
        for cell, p, why, definite in fails[:5]:
            V.inconc("w_hypot [%s]: accuracy not proved on %s (%s) and no violating pair found" % (cfg, cell, why))
    return info
