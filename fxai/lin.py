"""Linear forms over symbols with rational coefficients (immutable)."""
from fractions import Fraction
import hashlib


from math import gcd


class Lin:
    """(c + sum n[s]*s) / d  with integer c, n[s], d > 0, gcd of everything 1"""
    __slots__ = ("cn", "t", "d", "_key")

    def __init__(self, cn=0, t=None, d=1, _normed=False):
        if isinstance(cn, Fraction):
            # rescale
            if t:
                t = {s: k * cn.denominator for s, k in t.items()}
            d = d * cn.denominator
            cn = cn.numerator
        self.cn = cn
        self.t = t if t is not None else {}
        self.d = d
        self._key = None
        if not _normed and d != 1:
            self._reduce()

    def _reduce(self):
        g = gcd(self.cn, self.d)
        if g != 1:
            for k in self.t.values():
                g = gcd(g, k)
                if g == 1:
                    break
        if g > 1:
            self.cn //= g
            self.d //= g
            self.t = {s: k // g for s, k in self.t.items()}

    @property
    def c(self):
        return self.cn if self.d == 1 else Fraction(self.cn, self.d)

    # construction ------------------------------------------------
    @staticmethod
    def const(c):
        if isinstance(c, Fraction):
            return Lin(c.numerator, {}, c.denominator, True)
        return Lin(c, {}, 1, True)

    @staticmethod
    def sym(s, k=1):
        return Lin(0, {s: k}, 1, True)

    def is_const(self):
        return not self.t

    def single(self):
        """(sym, coef) if exactly one symbol, else None (coef may be a Fraction)"""
        if len(self.t) == 1:
            for s, k in self.t.items():
                return s, (k if self.d == 1 else Fraction(k, self.d))
        return None

    def coefs(self):
        """sym -> coefficient (Fraction or int)"""
        if self.d == 1:
            return dict(self.t)
        return {s: Fraction(k, self.d) for s, k in self.t.items()}

    def add(self, o):
        if self.d == o.d:
            d = self.d
            t = dict(self.t)
            for s, k in o.t.items():
                v = t.get(s, 0) + k
                if v == 0:
                    t.pop(s, None)
                else:
                    t[s] = v
            return Lin(self.cn + o.cn, t, d, d == 1)
        g = gcd(self.d, o.d)
        ma = o.d // g
        mb = self.d // g
        t = {s: k * ma for s, k in self.t.items()}
        for s, k in o.t.items():
            v = t.get(s, 0) + k * mb
            if v == 0:
                t.pop(s, None)
            else:
                t[s] = v
        return Lin(self.cn * ma + o.cn * mb, t, self.d * ma)

    def addc(self, c):
        if isinstance(c, Fraction):
            return self.add(Lin.const(c))
        if self.d == 1:
            return Lin(self.cn + c, self.t, 1, True)
        return Lin(self.cn + c * self.d, self.t, self.d, True)

    def neg(self):
        return Lin(-self.cn, {s: -k for s, k in self.t.items()}, self.d, True)

    def sub(self, o):
        return self.add(o.neg())

    def scale(self, f):
        if f == 0:
            return Lin(0, {}, 1, True)
        if f == 1:
            return self
        if isinstance(f, Fraction):
            n, dd = f.numerator, f.denominator
        else:
            n, dd = f, 1
        if n < 0:
            n, dd = n, dd
        return Lin(self.cn * n, {s: k * n for s, k in self.t.items()}, self.d * dd)

    def div(self, d):
        if isinstance(d, int):
            if d < 0:
                return Lin(-self.cn, {s: -k for s, k in self.t.items()}, self.d * -d)
            return Lin(self.cn, self.t, self.d * d)
        return self.scale(1 / Fraction(d))

    def key(self):
        if self._key is None:
            self._key = (self.cn, self.d, tuple(sorted(self.t.items(), key=lambda x: str(x[0]))))
        return self._key

    def __eq__(self, o):
        return isinstance(o, Lin) and self.key() == o.key()

    def __hash__(self):
        return hash(self.key())

    def integral_coefs(self):
        return self.d == 1

    def normalized(self):
        """returns (nkey, num, den, offn) with  self = (num * nform + offn) / den,
        nform = sum k_i s_i with integer k_i, gcd 1, leading (smallest str(sym)) coefficient positive."""
        if not self.t:
            return None
        g = 0
        for k in self.t.values():
            g = gcd(g, k)
        s0 = min(self.t, key=str)
        if self.t[s0] < 0:
            g = -g
        items = tuple(sorted(((s, k // g) for s, k in self.t.items()), key=lambda x: str(x[0])))
        return items, g, self.d, self.cn

    def syms(self):
        return self.t.keys()

    def __repr__(self):
        parts = []
        for s, k in sorted(self.t.items(), key=lambda x: str(x[0])):
            co = k if self.d == 1 else Fraction(k, self.d)
            parts.append("%s*%s" % (co, s) if co != 1 else str(s))
        if self.cn != 0 or not parts:
            parts.append(str(self.c))
        return " + ".join(parts)


_TERMS = {}


def T(*args):
    """hash-consed term: returns a short deterministic hash string; keeps a table for printing."""
    r = repr(args)
    h = "t" + hashlib.blake2b(r.encode(), digest_size=8).hexdigest()
    if h not in _TERMS:
        _TERMS[h] = args
    return h


def term_str(h, depth=4):
    a = _TERMS.get(h)
    if a is None:
        return str(h)
    if depth == 0:
        return "..."
    out = []
    for x in a:
        if isinstance(x, str) and x in _TERMS:
            out.append(term_str(x, depth - 1))
        elif isinstance(x, tuple):
            out.append(_key_str(x, depth - 1))
        else:
            out.append(str(x))
    return "(" + " ".join(out) + ")"


def _key_str(k, depth):
    try:
        cn, d, items = k
        c = cn if d == 1 else Fraction(cn, d)
        parts = []
        for s, co in items:
            co = co if d == 1 else Fraction(co, d)
            ss = term_str(s, depth) if isinstance(s, str) and s in _TERMS else str(s)
            parts.append("%s*%s" % (co, ss) if co != 1 else ss)
        if c != 0 or not parts:
            parts.append(str(c))
        return "[" + " + ".join(parts) + "]"
    except Exception:
        return str(k)


def term_args(h):
    return _TERMS.get(h)
