#!/usr/bin/env python3
"""Self-test of the checkers: every mutant must yield a VIOLATION of the named property, every benign variant must leave all
checks silent (exit 0).  Each variant is applied to a scratch copy of /repo (removed afterwards); checks run with FX_REPO set.

usage: selftest/run.py [mutants|benign|seeded|all] [-j N] [--checks C01,C02]"""
import json
import os
import re
import shutil
import subprocess
import sys
import tempfile
from concurrent.futures import ThreadPoolExecutor

ROOT = os.path.dirname(os.path.dirname(os.path.abspath(__file__)))
ALL = ["C%02d" % i for i in range(1, 21)]


def run_variant(diff, checks, tier="quick"):
    tmp = tempfile.mkdtemp(prefix="fxself-")
    try:
        subprocess.run(["rsync", "-a", "--exclude", "_build", "--exclude", ".git", "/repo/", tmp + "/"], check=True)
        p = subprocess.run(["patch", "-p1", "-s", "-i", os.path.abspath(diff)], cwd=tmp, stdout=subprocess.PIPE, stderr=subprocess.STDOUT, text=True)
        if p.returncode != 0:
            return {"diff": diff, "error": "patch does not apply: " + p.stdout[-300:]}
        env = dict(os.environ, FX_REPO=tmp)
        out = {}
        for c in checks:
            q = subprocess.run([os.path.join(ROOT, "fx"), "check", c, "--tier", tier], cwd=ROOT, env=env,
                               stdout=subprocess.PIPE, stderr=subprocess.STDOUT, text=True, timeout=3600)
            viol = re.findall(r"^VIOLATION property=(\S+)", q.stdout, re.M)
            first = ""
            m = re.search(r"^VIOLATION[^\n]*\n\s+([^\n]{0,220})", q.stdout, re.M)
            if m:
                first = m.group(1)
            out[c] = {"exit": q.returncode, "violations": len(viol), "inconclusive": len(re.findall(r"^INCONCLUSIVE", q.stdout, re.M)),
                      "broken": len(re.findall(r"^ANALYSIS-BROKEN", q.stdout, re.M)), "first": first}
        return {"diff": diff, "results": out}
    finally:
        shutil.rmtree(tmp, ignore_errors=True)


def main(argv):
    what = argv[1] if len(argv) > 1 else "all"
    jobs = 4
    if "-j" in argv:
        jobs = int(argv[argv.index("-j") + 1])
    only = None
    if "--checks" in argv:
        only = argv[argv.index("--checks") + 1].split(",")
    tier = "quick"
    if "--tier" in argv:
        tier = argv[argv.index("--tier") + 1]
    tasks = []
    if what in ("mutants", "all"):
        for f in sorted(os.listdir(os.path.join(ROOT, "selftest/mutants"))):
            if f.endswith(".diff"):
                prop = f.split("-")[0]
                tasks.append(("mutant", os.path.join(ROOT, "selftest/mutants", f), only or [prop]))
    if what in ("seeded", "all"):
        sd = os.path.join(ROOT, "seeded")
        for d in sorted(os.listdir(sd)) if os.path.isdir(sd) else []:
            pf = os.path.join(sd, d, "patch.diff")
            if os.path.exists(pf):
                prop = d.split("-")[0]
                checks = only or [prop]
                mf = os.path.join(sd, d, "meta.json")
                if os.path.exists(mf) and not only:
                    checks = json.load(open(mf)).get("detected_by_checks") or [prop]
                tasks.append(("seeded", pf, checks))
    if what in ("benign", "all"):
        for f in sorted(os.listdir(os.path.join(ROOT, "selftest/benign"))):
            if f.endswith(".diff"):
                tasks.append(("benign", os.path.join(ROOT, "selftest/benign", f), only or ALL))
    bad = 0
    with ThreadPoolExecutor(max_workers=jobs) as ex:
        futs = [(k, d, ex.submit(run_variant, d, c, tier)) for k, d, c in tasks]
        for kind, d, fu in futs:
            r = fu.result()
            name = os.path.relpath(d, ROOT)
            if "error" in r:
                print("ERROR  %-55s %s" % (name, r["error"]))
                bad += 1
                continue
            res = r["results"]
            if kind == "benign":
                noisy = {c: v for c, v in res.items() if v["exit"] != 0}
                if noisy:
                    bad += 1
                    print("NOISY  %-55s %s" % (name, {c: (v["exit"], v["violations"], v["inconclusive"], v["broken"]) for c, v in noisy.items()}))
                else:
                    print("silent %-55s (%d checks)" % (name, len(res)))
            else:
                hit = {c: v for c, v in res.items() if v["violations"] > 0}
                if hit:
                    c0 = sorted(hit)[0]
                    print("caught %-55s by %s: %s" % (name, ",".join(sorted(hit)), hit[c0]["first"][:150]))
                else:
                    bad += 1
                    print("MISSED %-55s %s" % (name, {c: (v["exit"], v["inconclusive"], v["broken"]) for c, v in res.items()}))
    print("selftest: %d variants, %d not as expected" % (len(tasks), bad))
    return 1 if bad else 0


if __name__ == "__main__":
    sys.exit(main(sys.argv))
