"""fxdev: exact-real value + deviation interval of a path's result (several parameters).

Every value-numbered form is split into (a) its *exact-real* value - what the expression computes when every floor, truncation
and rounding is removed -, kept symbolically as a polynomial in the parameters or a rational multiple of the square root of one,
and (b) an interval [dlo, dhi] containing (actual - exact-real) for every argument of a box, obtained by propagating the ranges of
the rounding noise (low bits dropped by shifts: [0, 2^k - 1]; integer square root: (-1, 0]; rounded floating square root: +-(1/2 + 2^-19))
through the operations with interval sensitivities evaluated on the box.  When the exact-real value is *identically* the function the
property names (a polynomial identity, no sampling), |actual - true| <= max(|dlo|, |dhi|) on the box: there is no method error to
cover, so coarse boxes are enough.  Used for hypot (C14)."""
from fractions import Fraction
from fxai.lin import term_args
from .fxnum import Unsupported, _sqrt_frac


# ---- polynomials in p0, p1, ...: {monomial: coefficient}, monomial = tuple of exponents
class Poly:
    __slots__ = ("t", "n")

    def __init__(self, t, n):
        self.t = {m: c for m, c in t.items() if c != 0}
        self.n = n

    @staticmethod
    def const(c, n):
        return Poly({(0,) * n: Fraction(c)}, n)

    @staticmethod
    def var(k, n):
        m = [0] * n
        m[k] = 1
        return Poly({tuple(m): Fraction(1)}, n)

    def add(self, o):
        t = dict(self.t)
        for m, c in o.t.items():
            t[m] = t.get(m, 0) + c
        return Poly(t, self.n)

    def scale(self, c):
        c = Fraction(c)
        return Poly({m: v * c for m, v in self.t.items()}, self.n)

    def mul(self, o):
        t = {}
        for m1, c1 in self.t.items():
            for m2, c2 in o.t.items():
                m = tuple(a + b for a, b in zip(m1, m2))
                t[m] = t.get(m, 0) + c1 * c2
        return Poly(t, self.n)

    def subst(self, k, v):
        """parameter k := rational v"""
        t = {}
        for m, c in self.t.items():
            m2 = list(m)
            e = m2[k]
            m2[k] = 0
            m2 = tuple(m2)
            t[m2] = t.get(m2, 0) + c * Fraction(v) ** e
        return Poly(t, self.n)

    def is_zero(self):
        return not self.t

    def rng(self, box):
        """interval of the polynomial over the box [(lo, hi)] (interval arithmetic per monomial)"""
        lo = hi = Fraction(0)
        for m, c in self.t.items():
            a = b = Fraction(1)
            for k, e in enumerate(m):
                if e == 0:
                    continue
                l_, h_ = box[k]
                if e % 2 == 0 and l_ < 0 < h_:
                    pl, ph = Fraction(0), max(l_ ** e, h_ ** e)
                else:
                    cs = (Fraction(l_) ** e, Fraction(h_) ** e)
                    pl, ph = min(cs), max(cs)
                cs = (a * pl, a * ph, b * pl, b * ph)
                a, b = min(cs), max(cs)
            if c >= 0:
                lo += c * a
                hi += c * b
            else:
                lo += c * b
                hi += c * a
        return lo, hi

    def __repr__(self):
        return " + ".join("%s*%s" % (c, m) for m, c in sorted(self.t.items())) or "0"


class SqrtOf:
    """c * sqrt(P)"""
    __slots__ = ("c", "p")

    def __init__(self, c, p):
        self.c = Fraction(c)
        self.p = p


def _iscale(iv, c):
    c = Fraction(c)
    return (iv[0] * c, iv[1] * c) if c >= 0 else (iv[1] * c, iv[0] * c)


def _iadd(a, b):
    return (a[0] + b[0], a[1] + b[1])


def _imul(a, b):
    cs = (a[0] * b[0], a[0] * b[1], a[1] * b[0], a[1] * b[1])
    return (min(cs), max(cs))


class Dev:
    def __init__(self, nparams, box):
        self.n = nparams
        self.box = box
        self.memo = {}

    def ex_rng(self, ex):
        if isinstance(ex, Poly):
            return ex.rng(self.box)
        lo, hi = ex.p.rng(self.box)
        if lo < 0:
            raise Unsupported("square root of a possibly negative exact value")
        return _iscale((_sqrt_frac(lo, False), _sqrt_frac(hi, True)), ex.c)

    def key(self, key):
        """(exact, (dlo, dhi)) of a Lin key"""
        cn, d, items = key
        ex = Poly.const(Fraction(cn, d), self.n)
        dev = (Fraction(0), Fraction(0))
        sq = None
        for s, c in items:
            co = Fraction(c, d)
            e, dv = self.sym(s)
            dev = _iadd(dev, _iscale(dv, co))
            if isinstance(e, Poly):
                ex = ex.add(e.scale(co))
            else:
                if sq is not None:
                    raise Unsupported("sum of two square roots")
                sq = SqrtOf(e.c * co, e.p)
        if sq is not None:
            if not ex.is_zero():
                raise Unsupported("square root plus polynomial")
            return sq, dev
        return ex, dev

    def sym(self, s):
        if s in self.memo:
            return self.memo[s]
        if isinstance(s, str) and s[0] == "p" and s[1:].isdigit():
            r = (Poly.var(int(s[1:]), self.n), (Fraction(0), Fraction(0)))
            self.memo[s] = r
            return r
        ta = term_args(s) if isinstance(s, str) else None
        if ta is None:
            raise Unsupported("symbol %s" % (s,))
        op = ta[0]
        if op == "mul":
            a, da = self.key(ta[1])
            b, db = self.key(ta[2])
            if not (isinstance(a, Poly) and isinstance(b, Poly)):
                raise Unsupported("product of square roots")
            ra, rb = self.ex_rng(a), self.ex_rng(b)
            dv = _iadd(_iadd(_imul(ra, db), _imul(rb, da)), _imul(da, db))
            r = (a.mul(b), dv)
        elif op == "lowbits":
            # bits dropped by a shift: pure noise in [0, 2^k - 1]
            k = ta[2]
            r = (Poly.const(0, self.n), (Fraction(0), Fraction((1 << k) - 1)))
        elif op == "isqrt":
            a, da = self.key(ta[1])
            r = self._root(a, da, (Fraction(-1), Fraction(0)), Fraction(1))
        elif op == "fptosi":
            r = self._float_root(ta[2])
        else:
            raise Unsupported("operator %s" % op)
        self.memo[s] = r
        return r

    def _root(self, a, da, rnd, scale):
        """scale * sqrt(a) with a rounding in `rnd` added after the root (scale: exact factor applied to the argument already)"""
        if not isinstance(a, Poly):
            raise Unsupported("root of a root")
        nl, nh = self.ex_rng(a)
        if nl + da[0] < 0:
            nl_eff = Fraction(0)
        if nl <= 0:
            raise Unsupported("root argument may vanish on the box")
        # sqrt(N + d) - sqrt(N) = d / (sqrt(N + d) + sqrt(N))
        lo_arg = max(nl + da[0], Fraction(0))
        dlo = da[0] / (_sqrt_frac(lo_arg, False) + _sqrt_frac(nl, False)) if da[0] < 0 else da[0] / (2 * _sqrt_frac(nh + da[0], True))
        dhi = da[1] / (2 * _sqrt_frac(nl, False)) if da[1] > 0 else da[1] / (_sqrt_frac(nh, True) * 2)
        return (SqrtOf(1, a), (dlo + rnd[0], dhi + rnd[1]))

    def _float_root(self, t):
        """fptosi(fma(sqrt(sitofp(T) / 65536), 65536, 0.5)): exact 65536 sqrt(T / 65536) = sqrt(65536 T), rounding +-(1/2 + 2^-19)"""
        def cst(h, v):
            a = term_args(h)
            return a is not None and a[0] == "cfp" and a[-1] == repr(float(v))
        x = term_args(t)
        if x is None:
            raise Unsupported("float term")
        if x[0] == "fmuladd":
            a, b, c = x[1], x[2], x[3]
            if not cst(c, 0.5):
                raise Unsupported("rounding offset is not +0.5")
            s_ = a if cst(b, 65536.0) else (b if cst(a, 65536.0) else None)
        elif x[0] == "fadd":
            s_ = None
            for prod, c in ((x[1], x[2]), (x[2], x[1])):
                m = term_args(prod)
                if cst(c, 0.5) and m is not None and m[0] == "fmul":
                    s_ = m[1] if cst(m[2], 65536.0) else (m[2] if cst(m[1], 65536.0) else None)
        else:
            raise Unsupported("float expression %s" % x[0])
        sq = term_args(s_) if s_ is not None else None
        if sq is None or sq[0] != "sqrt":
            raise Unsupported("no sqrt in the float expression")
        dv = term_args(sq[1])
        if dv is None or dv[0] != "fdiv" or not cst(dv[2], 65536.0):
            raise Unsupported("sqrt argument is not T/65536")
        cv = term_args(dv[1])
        if cv is None or cv[0] != "sitofp" or cv[1] != "double":
            raise Unsupported("sqrt argument is not converted from an integer")
        a, da = self.key(cv[2])
        if not isinstance(a, Poly):
            raise Unsupported("root of a root")
        if self.ex_rng(a)[1] >= (1 << 53):
            raise Unsupported("integer beyond 2^53 converted to double")
        eps = Fraction(1, 2) + Fraction(1, 1 << 19)
        return self._root(a.scale(65536), _iscale(da, 65536), (-eps, eps), Fraction(1))


def path_dev(ret, nparams, box):
    """(exact: Poly | SqrtOf, (dlo, dhi)) of an IntV result on the box [(lo, hi), ...] of the parameters"""
    d = Dev(nparams, box)
    return d.key(ret.lin.key())
