"""C08: results do not depend on compiler, optimisation level or evaluation time (partly decided).

(a) constexpr closure (AST rules, K17A and K20): every library function reachable from the public entry points is constexpr,
    calls to non-constexpr callees only in the else-arm of if(std::is_constant_evaluated()), no constant-evaluation blockers.
(b) standard-version independence: every wrapper's path summary under -std=c++17 equals the one under -std=c++20
    (hand written cmp_*/countl_zero versus <utility>/<bit>), by summary equivalence.
(c) contraction independence: every llvm.fmuladd in library code is exact either way (power-of-two multiplier).
(d) optimisation-level independence: no reachable UB in any wrapper (re-derived here from the same runs), and no false
    [[gnu::const]]/[[gnu::pure]] attribute on a function that writes through a reference.
(e) the two square-root algorithms differ by at most one ulp (loop invariant + shape lemma).
(f) the arms selected by std::is_constant_evaluated() (configuration K20C) equal the run-time arms (summary equivalence).
Not decided: code generator correctness."""
import multiprocessing as mp
import random
import os
from . import common, lib, astlint
from fxai import runner
from fxai.interp import Broken
from fxai.state import Infeasible

_G = {}

# wrappers whose code contains loops with join symbols (names depend on block labels): compared on their loop-free parts only
SKIP_EQUIV = {"w_sqrt_abacus", "w_atan_index_aprox", "w_atan_aprox"}


def _work(name):
    V = common.Verdict("C08", "quick", 0)
    V.known = {}
    out = {"name": name, "viol": [], "inconc": [], "broke": [], "obl": 0, "dis": 0, "pairs": 0, "fma": [], "alarms": []}
    try:
        ra = _G["a"].run(name)
        rb = _G["b"].run(name)
        for r, cfg in ((ra, _G["a"].config), (rb, _G["b"].config)):
            for a in r.alarms:
                if a.status == "violation":
                    out["alarms"].append((cfg, a.kind, a.site, a.where, list(a.witness)))
                elif a.status == "inconclusive":
                    out["inconc"].append("%s/%s: %s at %s unresolved" % (cfg, name, a.kind, a.where))
            notes = [n for p in r.paths for n in p.state.notes] + list(r.res.dropped_notes)
            for n in notes:
                if n[0] == "fmuladd":
                    out["fma"].append((cfg, n[1], n[2]))
        if name not in SKIP_EQUIV:
            out["pairs"] = lib.check_equiv(V, ra, rb, "-std=c++17 and -std=c++20 builds return the same value", site=ra.ent.api or name)
    except Broken as e:
        out["broke"].append("%s: %s" % (name, e))
    except Infeasible:
        out["broke"].append("%s: no feasible path" % name)
    out["viol"] = V.violations
    out["inconc"] += V.inconclusive
    out["broke"] += V.broken
    out["obl"], out["dis"] = V.obligations, V.discharged
    return out


def _fn_text(ctx, name):
    fn = ctx.built.mod.functions.get(name)
    if fn is None:
        return None
    import re
    out = []
    for bn in fn.order:
        out.append(bn + ":")
        for i in fn.blocks[bn].insts:
            out.append(re.sub(r", !dbg !\d+|, !nosanitize !\d+|, !llvm\.loop !\d+|!dbg !\d+| #\d+", "", i.text))
    return "\n".join(out)


def _work_ce(name):
    """the constant-evaluation arms (K20C) against the run-time arms of the build that selects the same square-root algorithm"""
    V = common.Verdict("C08", "quick", 0)
    V.known = {}
    out = {"name": name, "viol": [], "inconc": [], "broke": [], "obl": 0, "dis": 0, "pairs": 0, "same_ir": False, "ref": None}
    try:
        tc = _fn_text(_G["ce"], name)
        tb = _fn_text(_G["ce_ref20"], name)
        if tc is None or tb is None:
            return out
        if tc == tb:
            out["same_ir"] = True
            return out
        uses_sqrt = ("@sqrt" in tb) or ("llvm.sqrt" in tb)
        ref = _G["ce_ref17a"] if uses_sqrt else _G["ce_ref20"]
        out["ref"] = ref.config
        if name not in ref.built.entries:
            return out
        rc = _G["ce"].run(name)
        rr = ref.run(name)
        for a in rc.alarms:
            if a.status == "violation":
                V.oblige(False)
                V.violation(a.kind, a.site, "%s in %s(%s) when the constant-evaluation arms are taken [K20C] at %s" % (
                    a.kind, name, ", ".join(map(repr, a.witness)), a.where), {"wrapper": name, "args": list(a.witness), "config": "K20C", "expected": a.kind})
        if name not in SKIP_EQUIV:
            out["pairs"] = lib.check_equiv(V, rc, rr, "constant evaluation (is_constant_evaluated() arms, K20C) and run time (%s) return the same value" % ref.config,
                                           site=rc.ent.api or name)
    except Broken as e:
        out["broke"].append("%s [K20C]: %s" % (name, e))
    except Infeasible:
        out["broke"].append("%s [K20C]: no feasible path" % name)
    out["viol"] = V.violations
    out["inconc"] += V.inconclusive
    out["broke"] += V.broken
    out["obl"], out["dis"] = V.obligations, V.discharged
    return out


def _work_23(name):
    V = common.Verdict("C08", "quick", 0)
    V.known = {}
    out = {"name": name, "viol": [], "inconc": [], "broke": [], "obl": 0, "dis": 0, "pairs": 0, "same_ir": False, "ref": None}
    try:
        tc = _fn_text(_G["k23"], name)
        tb = _fn_text(_G["ce_ref20"], name)
        if tc is None or tb is None:
            return out
        if tc == tb:
            out["same_ir"] = True
            return out
        # clang 14 folds `if (std::is_constant_evaluated())` to the constant-evaluation arm under -std=c++2b (libstdc++ implements it
        # with `if consteval` there, which the front end's condition folding evaluates as true): the c++2b build then *selects the abacus
        # algorithm at run time*. The property fixes the value per selected algorithm, so such a wrapper is compared with the abacus build.
        sq20 = ("@sqrt" in tb) or ("llvm.sqrt" in tb)
        sq23 = ("@sqrt" in tc) or ("llvm.sqrt" in tc)
        ref = _G["ce_ref17a"] if (sq20 and not sq23) else _G["ce_ref20"]
        out["ref"] = ref.config
        if name not in ref.built.entries:
            return out
        rc = _G["k23"].run(name)
        rr = ref.run(name)
        if name not in SKIP_EQUIV:
            out["pairs"] = lib.check_equiv(V, rc, rr, "-std=c++2b and %s builds return the same value" % ("-std=c++20" if ref.config == "K20" else "abacus (c++17)"),
                                           site=rc.ent.api or name)
    except Broken as e:
        out["broke"].append("%s [K23]: %s" % (name, e))
    except Infeasible:
        out["broke"].append("%s [K23]: no feasible path" % name)
    out["viol"] = V.violations
    out["inconc"] += V.inconclusive
    out["broke"] += V.broken
    out["obl"], out["dis"] = V.obligations, V.discharged
    return out


def const_eval_arms(V, tier):
    """(f) the arms selected by std::is_constant_evaluated(): compiled as ordinary code (configuration K20C) and compared with the
    run-time arms by summary equivalence - with K20 where no square root is involved, with the abacus build K17A where one is
    (the property lets the algorithm differ, not the value for a given algorithm)"""
    try:
        from concurrent.futures import ThreadPoolExecutor
        with ThreadPoolExecutor(4) as ex:
            fs = {k: ex.submit(lib.Ctx, c, [], None, False, (), True) for k, c in (("ce", "K20C"), ("ce_ref20", "K20"), ("ce_ref17a", "K17A"),
                                                                                   ("k23", "K23"))}
            for k, f in fs.items():
                _G[k] = f.result()
    except Broken as e:
        V.broke("constant-evaluation arms: %s" % e)
        return
    names = sorted(n for n in _G["ce"].built.entries if n.startswith("w_") and n in _G["ce_ref20"].built.entries)
    ctx = mp.get_context("fork")
    with ctx.Pool(min(16, os.cpu_count() or 1)) as pool:
        outs = pool.map(_work_ce, names, chunksize=2)
    same = sum(1 for o in outs if o["same_ir"])
    compared = [o for o in outs if o["ref"]]
    for o in outs:
        V.obligations += o["obl"]
        V.discharged += o["dis"]
        for w in o["broke"]:
            V.broke(w)
        for w in o["inconc"]:
            V.inconc(w)
        for v in o["viol"]:
            V.violation(v["kind"], v["site"], v["text"], v.get("replay"))
    V.oblige(True, same)
    V.cover["const_eval_arms"] = {"wrappers": len(names), "identical_ir_in_both_modes": same, "compared_by_summary_equivalence": len(compared),
                                  "against_abacus_build": sorted(o["name"] for o in compared if o["ref"] == "K17A")[:40]}
    if len(names) < 250:
        V.broke("constant-evaluation arms: only %d wrappers" % len(names))
    # -std=c++2b (the c++23 feature-test branches of utility_cxx20.h) against -std=c++20
    names23 = sorted(n for n in _G["k23"].built.entries if n.startswith("w_") and n in _G["ce_ref20"].built.entries)
    with ctx.Pool(min(16, os.cpu_count() or 1)) as pool:
        outs = pool.map(_work_23, names23, chunksize=2)
    same = sum(1 for o in outs if o["same_ir"])
    for o in outs:
        V.obligations += o["obl"]
        V.discharged += o["dis"]
        for w in o["broke"]:
            V.broke(w)
        for w in o["inconc"]:
            V.inconc(w)
        for v in o["viol"]:
            V.violation(v["kind"], v["site"], v["text"], v.get("replay"))
    V.oblige(True, same)
    V.cover["cxx23_vs_cxx20"] = {"wrappers": len(names23), "identical_ir": same, "compared_by_summary_equivalence": sum(1 for o in outs if o["ref"]),
                                 "abacus_selected_at_run_time_by_the_c++2b_build": sorted(o["name"] for o in outs if o["ref"] == "K17A")}
    if len(names23) < 250:
        V.broke("c++2b build: only %d wrappers" % len(names23))


def ast_rules(V, cfg):
    try:
        r = astlint.run(cfg)
    except Exception as e:
        V.broke("AST rules (%s): %s" % (cfg, str(e)[:800]))
        return
    lib_hits = lambda k: [h for h in r.get(k, []) if h[0].startswith("fixed_lib")]
    # ATTR
    for h in lib_hits("ATTR"):
        V.oblige(False)
        V.violation("false-const-attribute", astlint.fn_name(h[3]),
                    "%s:%d: function declared [[gnu::const]]/[[gnu::pure]] takes a non-const reference/pointer or returns a reference: "
                    "an optimiser may delete or merge calls, the result depends on the optimisation level: %s" % (h[0], h[1], h[3]))
    # sanctioned calls
    ok_calls = set((h[0], h[1], h[2]) for k in ("NCCALL_OK", "NCCALL_OK2", "NCCALL_OK3", "NCCALL_OK4") for h in r.get(k, []))
    bad_calls = [h for h in lib_hits("NCCALL") if (h[0], h[1], h[2]) not in ok_calls]
    V.oblige(True, len(lib_hits("NCCALL")) - len(bad_calls))
    called_bad = set()
    for h in bad_calls:
        callee = astlint.fn_name(h[6]) if len(h) > 6 else "?"
        called_bad.add(callee)
        V.oblige(False)
        V.violation("not-constexpr-call", callee, "%s:%d [%s]: constexpr function calls non-constexpr '%s' outside the run-time arm of "
                    "if(std::is_constant_evaluated()): %s" % (h[0], h[1], cfg, callee, h[3]))
    # definitions / declarations that are not constexpr
    sanctioned_callees = set(astlint.fn_name(h[6]) for h in lib_hits("NCCALL") if len(h) > 6 and (h[0], h[1], h[2]) in ok_calls)
    for k in ("NCDEF", "NCDECL"):
        for h in lib_hits(k):
            name = astlint.fn_name(h[3])
            if k == "NCDEF" and name in sanctioned_callees and name not in called_bad:
                V.oblige(True)      # only used from the run-time-only region
                continue
            if k == "NCDEF" and cfg == "K17A" and name == "sqrt_std_math":
                V.oblige(True)      # not referenced at all when the abacus algorithm is selected
                continue
            V.oblige(False)
            V.violation("not-constexpr", name, "%s:%d [%s]: '%s' is not constexpr although sqrt_constexpr_available: a call that returns a value "
                        "at run time is rejected in a constant expression: %s" % (h[0], h[1], cfg, name, h[3]))
    for k in ("BLOCK_ASM", "BLOCK_GOTO", "BLOCK_RCAST", "BLOCK_STATIC", "BLOCK_TRY", "BLOCK_THROW"):
        for h in lib_hits(k):
            V.oblige(False)
            V.violation("constant-evaluation-blocker", k, "%s:%d [%s]: %s" % (h[0], h[1], cfg, h[3]))
    npub = len(lib_hits("PUBFN"))
    V.oblige(True, npub)
    if npub < 80:
        V.broke("AST rules (%s): only %d library function definitions seen (expected >= 80)" % (cfg, npub))
    V.sample({"config": cfg, "library_functions_seen": npub, "non_constexpr_definitions": [astlint.fn_name(h[3]) for h in lib_hits("NCDEF")],
              "calls_to_non_constexpr": len(lib_hits("NCCALL")), "sanctioned": len(lib_hits("NCCALL")) - len(bad_calls)})


def sqrt_algorithms(V):
    """|sqrt_std_math(x) - sqrt_abacus(x)| <= 1 ulp on the domain, from the functional characterisation of each"""
    from . import c13, isqrt
    from .lib import sym
    try:
        ctx = lib.Ctx("K17", [], only={"w_sqrt_std", "w_sqrt_abacus"})
        box = ("i", 1, (1 << 47) - 1)
        rs = ctx.run("w_sqrt_std", [box])
        n = 0
        for p in rs.paths:
            if lib.feasible_with(p.state, [(sym(0), 1, (1 << 47) - 1)]) is None:
                continue
            ok, why = c13.shape_std(p)
            V.oblige(ok)
            n += 1
            if not ok:
                V.inconc("w_sqrt_std [K17]: result is not the rounded std::sqrt expression (%s): the comparison of the two algorithms is not decided" % why)
        if n == 0:
            V.broke("w_sqrt_std: no path on the domain")
        box2 = ("i", 1, (1 << 48) - 1)
        ra = ctx.run("w_sqrt_abacus", [box2])
        inf = isqrt.prove(V, ra, "K17", box2, "sqrt_abacus")
        ok = inf is not None and inf["N"] == str(sym(0).scale(65536))
        V.oblige(ok)
        if inf is not None and not ok:
            V.inconc("w_sqrt_abacus [K17]: the loop computes floor(sqrt(N)) for N = %s, not for 65536*raw" % inf["N"])
        V.cover["sqrt_algorithms"] = {"std_paths_with_shape": n, "abacus_iterations_checked": inf["steps"] if inf else 0}
    except Broken as e:
        V.broke("sqrt algorithms: %s" % e)


def run(tier, seed):
    V = common.Verdict("C08", tier, seed)
    # (a) + ATTR
    for cfg in ("K17A", "K20"):
        ast_rules(V, cfg)
    # (b) (c) (d)
    try:
        _G["a"] = lib.Ctx("K17", [])
        _G["b"] = lib.Ctx("K20", [])
    except Broken as e:
        V.broke(str(e))
        return V.finish("other", "build failed", "./fx check C08")
    names = sorted(n for n in _G["a"].built.entries if n in _G["b"].built.entries and not n.startswith("c_"))
    if tier == "quick":
        # the heavy two-parameter trig wrappers are left to the thorough tier
        names = [n for n in names if n not in ("w_atan2",)]
    ctx = mp.get_context("fork")
    with ctx.Pool(min(16, os.cpu_count() or 1)) as pool:
        outs = pool.map(_work, names, chunksize=2)
    pairs = 0
    fma_total = 0
    fma_bad = set()
    for o in outs:
        V.obligations += o["obl"]
        V.discharged += o["dis"]
        pairs += o["pairs"]
        for w in o["broke"]:
            V.broke(w)
        for w in o["inconc"]:
            V.inconc(w)
        for v in o["viol"]:
            V.violation(v["kind"], v["site"], v["text"], v.get("replay"))
        for cfg, kind, site, where, wit in o["alarms"]:
            V.oblige(False)
            V.violation(kind, site, "%s in %s(%s) [%s] at %s: undefined behaviour, the value returned depends on the optimisation level" % (
                kind, o["name"], ", ".join(map(repr, wit)), cfg, where), {"wrapper": o["name"], "args": wit, "config": cfg, "expected": kind})
        for cfg, line, safe in o["fma"]:
            fma_total += 1
            if not safe:
                fma_bad.add((cfg, line, o["name"]))
    for cfg, line, name in sorted(fma_bad):
        V.oblige(False)
        V.violation("contraction-dependent", "fmuladd", "%s [%s]: llvm.fmuladd at IR line %d: fused and unfused evaluation may round differently "
                    "(multiplier is not a power of two or the product can overflow/underflow)" % (name, cfg, line))
    V.oblige(True, len(set((c, l) for c, l, s in [(a, b, c) for o in outs for a, b, c in o["fma"]])) - len(fma_bad))
    sqrt_algorithms(V)
    const_eval_arms(V, tier)
    V.cover["programs"] = 2 * len(names)
    if len(names) < 250 and tier != "quick":
        V.broke("only %d wrappers compared" % len(names))
    expl = ("DECIDED: (a) in K17A and K20 every library function definition in the driver TU is constexpr except those only called from the "
            "else-arm of if(std::is_constant_evaluated()); no asm/goto/reinterpret_cast/static local/try/throw in constexpr library code; "
            "together with C07 (no UB for any input) this is 'every call that returns at run time is accepted as a constant expression'. "
            "The out-of-line lookup-table family is a recorded finding. (b) for each wrapper the path summaries built with -std=c++17 and "
            "-std=c++20 are compared pair by pair (summary equivalence): identical returned forms on every jointly feasible path pair. "
            "(c) every llvm.fmuladd in library code has a power-of-two multiplier with an exact product, so -ffp-contract cannot change "
            "results. (d) no reachable UB in any wrapper in either configuration (so every -O level yields the abstract-machine value), and "
            "no [[gnu::const]]/[[gnu::pure]] function writes through a reference. (e) the two square-root algorithms: detail::sqrt_abacus returns floor(y) with "
            "y = sqrt(65536 raw) (inductive loop invariant, fxai.isqrt) and detail::sqrt_std_math returns an integer within 0.5 + 2^-19 of y "
            "(shape lemma of C13), so their difference is 0 or 1 ulp for every 0 <= raw < 2^47. (f) constant evaluation versus run time: the configuration K20C forces "
            "std::is_constant_evaluated() / __builtin_is_constant_evaluated() to true, so the arms a constant evaluation takes are compiled as "
            "ordinary code; a wrapper whose IR is identical in K20 and K20C has no such arm, every other one is compared by summary equivalence "
            "with the run-time build that selects the same square-root algorithm (K20, or the abacus build K17A for sqrt, hypot, asin, acos - the "
            "loop enters as its verified isqrt summary on both sides). (g) -std=c++2b against -std=c++20 the same way (wrappers for which clang 14's "
            "c++2b build selects the abacus algorithm at run time - a front-end quirk with libstdc++'s `if consteval` - are compared with the abacus "
            "build). GCC/Clang code generators are trusted.")
    return V.finish("other", expl, "./fx check C08 --tier %s" % tier,
                    extra={"wrappers_compared": len(names), "joint_path_pairs": pairs, "fmuladd_sites_seen": fma_total, "configs": ["K17", "K17A", "K20"]})
