"""C04: integer <-> fixed conversion is exact in range and NaN outside (decided in full)."""
from . import common, lib
from .lib import M, FIN, E, sym
from fxai.interp import Broken
from fxai.lin import Lin
from spec import entry as ENT

MAXI = (1 << 31) - 1
EXTRA = [E("w_rt_" + t, [t], t, "return fixed_to_integral<%s>(fixed_t(a));" % ENT.CTYPE[t]) for t in ENT.INTS]


def tofixed_regions(t):
    """parameter p0 is the signed reading of the N-bit pattern; n is the mathematical operand value"""
    N = ENT.BITS[t]
    p = sym(0)
    regs = []
    if t[0] == "i":
        lo, hi = max(-MAXI, ENT.tmin(t)), min(MAXI, ENT.tmax(t))
        regs.append(("in-range", [(p, lo, hi)], ("lin", p.scale(65536))))
        if ENT.tmax(t) > MAXI:
            regs.append(("above", [(p, MAXI + 1, None)], ("const", M)))
            regs.append(("below", [(p, None, -MAXI - 1)], ("const", M)))
    else:
        # unsigned: p0 >= 0 -> n = p0 ; p0 < 0 -> n = p0 + 2^N
        regs.append(("in-range", [(p, 0, min(MAXI, (1 << (N - 1)) - 1))], ("lin", p.scale(65536))))
        if N <= 31 or (1 << (N - 1)) - 1 <= MAXI:
            # the upper half of the type is still <= 2^31-1 (8/16 bit) or exceeds it (32 bit)
            if (1 << N) - 1 <= MAXI:
                regs.append(("in-range-high", [(p, None, -1)], ("lin", p.addc(1 << N).scale(65536))))
            else:
                regs.append(("above-high", [(p, None, -1)], ("const", M)))
        else:
            regs.append(("above", [(p, MAXI + 1, None)], ("const", M)))
            regs.append(("above-high", [(p, None, -1)], ("const", M)))
    return regs


def n_of(t, pv):
    N = ENT.BITS[t]
    if t[0] == "u" and pv < 0:
        return pv + (1 << N)
    return pv


def bad_tofixed(t):
    def bad(a, o):
        n = n_of(t, a[0])
        ex = n * 65536 if abs(n) <= MAXI else M
        return o != ("ret", ex)
    return bad


def fromfixed_regions(t):
    N = ENT.BITS[t]
    x = sym(0)
    tmin, tmax = ENT.tmin(t), ENT.tmax(t)
    regs = []
    half = (1 << (N - 1)) - 1
    # k in [a,b]  <=>  x in [65536a, 65536b + 65535]
    a, b = tmin, min(tmax, half)
    regs.append(("k representable", [(x, 65536 * a, 65536 * b + 65535)], ("diff", 65536, x, -65535, 0)))
    if tmax > half and 65536 * (half + 1) <= M - 1:   # unsigned upper half: IR value is k - 2^N
        regs.append(("k representable (upper half)", [(x, 65536 * (half + 1), 65536 * tmax + 65535)],
                     ("diff", 65536, x.addc(-(1 << N) * 65536), -65535, 0)))
    if 65536 * tmax + 65535 < M - 1:
        regs.append(("k too large", [(x, 65536 * tmax + 65536, None)], ("const", 0)))
    if 65536 * tmin > -(M - 1):
        regs.append(("k too small", [(x, None, 65536 * tmin - 1)], ("const", 0)))
    return regs


def bad_fromfixed(t):
    N = ENT.BITS[t]

    def bad(a, o):
        k = a[0] >> 16
        if ENT.tmin(t) <= k <= ENT.tmax(t):
            ex = k if k <= (1 << (N - 1)) - 1 else k - (1 << N)
        else:
            ex = 0
        return o != ("ret", ex)
    return bad


def run(tier, seed):
    V = common.Verdict("C04", tier, seed)
    configs = ["K17", "K20"] if tier == "quick" else ["K17", "K17A", "K20"]
    nw = 0
    for cfg in configs:
        try:
            ctx = lib.Ctx(cfg, EXTRA)
        except Broken as e:
            V.broke(str(e))
            continue
        for t in ENT.INTS:
            try:
                for w in ("w_ctor_", "w_i2f_", "w_mk_"):
                    r = ctx.run(w + t)
                    nw += 1
                    lib.check_regions(V, r, tofixed_regions(t), bad_tofixed(t), "%s -> fixed exact for |n| <= 2^31-1, NaN otherwise" % t,
                                      site="integral_to_fixed")
                for w in ("w_f2i_", "w_cast_", "w_f2a_"):
                    r = ctx.run(w + t, [FIN])
                    nw += 1
                    lib.check_regions(V, r, fromfixed_regions(t), bad_fromfixed(t),
                                      "fixed -> %s is the integer k with k <= x < k+1 when representable, else 0" % t, site="fixed_to_integral")
                # round trip
                r = ctx.run("w_rt_" + t)
                nw += 1
                p = sym(0)
                N = ENT.BITS[t]
                if t[0] == "i":
                    regs = [("in-range", [(p, max(-MAXI, ENT.tmin(t)), min(MAXI, ENT.tmax(t)))], ("lin", p))]
                else:
                    regs = [("in-range", [(p, 0, min(MAXI, (1 << (N - 1)) - 1))], ("lin", p))]
                    if (1 << N) - 1 <= MAXI:
                        regs.append(("in-range-high", [(p, None, -1)], ("lin", p)))
                lib.check_regions(V, r, regs, lambda a, o, t=t: abs(n_of(t, a[0])) <= MAXI and o != ("ret", a[0]),
                                  "n -> fixed_t -> %s round-trips every in-range n" % t, site="fixed_to_integral")
            except Broken as e:
                V.broke("%s/%s: %s" % (cfg, t, e))
    # literal operator
    # the long long / unsigned long long spellings of the 64-bit operand are distinct types on LP64: same programs as int64_t / uint64_t
    from . import spell
    for cfg_ in (configs[:1] if tier == "quick" else configs):
        try:
            spell.check(V, cfg_, "conv", "integral conversion")
        except Broken as e:
            V.broke("spellings %s: %s" % (cfg_, e))
    expl = ("For each of the 8 integral carriers and each of constructor / integral_to_fixed / make_fixed: on the box |n| <= 2^31-1 "
            "(n = mathematical operand value; for unsigned carriers the negative half of the bit pattern is n + 2^N) the returned form is "
            "65536*n unwrapped, on the complement the NaN constant. For fixed_to_integral / static_cast / fixed_to_arithmetic with finite x: "
            "on the box where k = floor(x/65536) is representable in T the result q satisfies -65535 <= 65536*q - x <= 0 (k <= x < k+1), "
            "otherwise 0. The composition n -> fixed_t -> T returns the form n on the in-range box. K17 and K20 are both analysed because "
            "the cmp_* helpers differ (hand written versus <utility>).")
    expl = expl + ' The `long long` / `unsigned long long` spellings of a 64-bit integral operand (distinct types on LP64) are compared with the int64_t / uint64_t wrappers by summary equivalence; spellings the library does not compile for are listed in the evidence as not defined.'
    return V.finish("proof", expl, "./fx check C04 --tier %s" % tier, extra={"configs": configs, "wrappers": nw})
