"""fxnum: one-sided method-error rule (DESIGN 3.6).

From the value-numbered result of a path, the *idealised real-valued* expression is evaluated at rational test points: every
dropped floor / truncation (low-bit symbols, remainders of constant divisions) is replaced by its mid value and its half range is
accumulated as a rigorous bound rho on |actual - ideal|. If at some point |ideal - f(x)| - rho exceeds the property's bound, the code
cannot meet the bound there whatever the rounding does: a definite violation, confirmed on the IR and reported with that point as
witness. The converse is never claimed: the rule cannot certify accuracy, it only adds true alarms (wrong coefficient, series used
outside its range, wrong fold)."""
from fractions import Fraction
from fxai.lin import Lin, term_args
from fxai.state import IntV


class Unsupported(Exception):
    pass


def eval_key(key, env, memo):
    cn, d, items = key
    v = Fraction(cn, d)
    e = Fraction(0)
    for s, c in items:
        sv, se = eval_sym(s, env, memo)
        co = Fraction(c, d)
        v += co * sv
        e += abs(co) * se
    return v, e


def eval_sym(s, env, memo):
    if s in env:
        return env[s], Fraction(0)
    if s in memo:
        return memo[s]
    ta = term_args(s) if isinstance(s, str) else None
    if ta is None:
        raise Unsupported("symbol %s" % (s,))
    op = ta[0]
    if op == "mul":
        a, ea = eval_key(ta[1], env, memo)
        b, eb = eval_key(ta[2], env, memo)
        r = (a * b, abs(a) * eb + abs(b) * ea + ea * eb)
    elif op == "lowbits":
        k = ta[2]
        h = Fraction((1 << k) - 1, 2)
        r = (h, h)
    elif op == "rem+":
        m = ta[2]
        if m > 4096:
            raise Unsupported("remainder modulo %d is a value, not rounding noise" % m)
        h = Fraction(m - 1, 2)
        r = (h, h)
    elif op in ("sdiv", "udiv"):
        n, en = eval_key(ta[2], env, memo)
        dd, ed = eval_key(ta[3], env, memo)
        if abs(dd) - ed <= 0:
            raise Unsupported("divisor may vanish")
        v = n / dd
        e = (abs(n) * ed + abs(dd) * en) / (abs(dd) * (abs(dd) - ed))
        # truncation toward zero: with the sign of the quotient known it is a one-sided rounding of width 1 (mid value -+ 1/2)
        sg = _quot_sign(n - en, n + en, dd - ed, dd + ed)
        if "__signs__" in memo:
            # decisions of the enclosing cell (the point value must idealise the truncation the same way as the cell does)
            sg = memo["__signs__"].get(s, 0)
        if sg > 0:
            r = (v - Fraction(1, 2), e + Fraction(1, 2))
        elif sg < 0:
            r = (v + Fraction(1, 2), e + Fraction(1, 2))
        else:
            r = (v, e + 1)
    elif op == "isqrt":
        # floor(sqrt(n)) (verified loop summary, fxai.isqrt): one-sided rounding of the real root
        n, en = eval_key(ta[1], env, memo)
        if n - en <= 0:
            raise Unsupported("isqrt argument may vanish")
        lo = _sqrt_frac(n - en, False)
        hi = _sqrt_frac(n + en, True)
        r = ((lo + hi) / 2 - Fraction(1, 2), (hi - lo) / 2 + Fraction(1, 2))
    elif op == "fptosi":
        z, ez = feval(ta[2], env, memo)
        # truncation toward zero of z (+- ez): within 1/2 of z -+ 1/2
        if z - ez >= 0:
            r = (z - Fraction(1, 2), ez + Fraction(1, 2))
        elif z + ez <= 0:
            r = (z + Fraction(1, 2), ez + Fraction(1, 2))
        else:
            r = (z, ez + 1)
    else:
        raise Unsupported("operator %s" % op)
    memo[s] = r
    return r


def _quot_sign(nlo, nhi, dlo, dhi):
    """+1 / -1 when every quotient of a numerator in [nlo,nhi] by a divisor in [dlo,dhi] is >= 0 / <= 0, else 0"""
    if dlo > 0:
        return 1 if nlo >= 0 else (-1 if nhi <= 0 else 0)
    if dhi < 0:
        return 1 if nhi <= 0 else (-1 if nlo >= 0 else 0)
    return 0


FPREL = Fraction(1, 1 << 48)      # generous bound on the relative rounding error accumulated by a handful of binary64 operations


def _sqrt_frac(x, up):
    """rational enclosure end of sqrt(x), x >= 0 Fraction, to 2^-80"""
    import math
    n = (x.numerator << 160) // x.denominator
    r = math.isqrt(n)
    if up:
        r += 1
    return Fraction(r, 1 << 80)


def feval(t, env, memo):
    """(ideal real value, bound on |actual - ideal|) of a value-numbered floating expression at a point"""
    key = ("f", t)
    if key in memo:
        return memo[key]
    ta = term_args(t)
    if ta is None:
        raise Unsupported("float term %s" % (t,))
    op = ta[0]
    if op == "cfp":
        v = Fraction(float(ta[-1])) if ta[-1] not in ("nan",) else None
        if v is None:
            raise Unsupported("NaN constant")
        r = (v, Fraction(0))
    elif op in ("sitofp", "uitofp"):
        v, e = eval_key(ta[2], env, memo)
        r = (v, e + abs(v) * FPREL)
    elif op in ("fpext", "fptrunc"):
        r = feval(ta[1], env, memo)
    elif op == "fdiv":
        a, ea = feval(ta[1], env, memo)
        b, eb = feval(ta[2], env, memo)
        if abs(b) - eb <= 0:
            raise Unsupported("float divisor may vanish")
        v = a / b
        r = (v, (abs(a) * eb + abs(b) * ea) / (abs(b) * (abs(b) - eb)) + abs(v) * FPREL)
    elif op == "fmul":
        a, ea = feval(ta[1], env, memo)
        b, eb = feval(ta[2], env, memo)
        r = (a * b, abs(a) * eb + abs(b) * ea + ea * eb + abs(a * b) * FPREL)
    elif op in ("fadd", "fsub"):
        a, ea = feval(ta[1], env, memo)
        b, eb = feval(ta[2], env, memo)
        v = a + b if op == "fadd" else a - b
        r = (v, ea + eb + abs(v) * FPREL)
    elif op == "fmuladd":
        a, ea = feval(ta[1], env, memo)
        b, eb = feval(ta[2], env, memo)
        c, ec = feval(ta[3], env, memo)
        v = a * b + c
        r = (v, abs(a) * eb + abs(b) * ea + ea * eb + ec + (abs(a * b) + abs(v)) * FPREL)
    elif op == "sqrt":
        a, ea = feval(ta[1], env, memo)
        if a - ea <= 0:
            raise Unsupported("sqrt argument may be non-positive")
        lo = _sqrt_frac(a - ea, False)
        hi = _sqrt_frac(a + ea, True)
        v = (lo + hi) / 2
        r = (v, (hi - lo) / 2 + v * FPREL)
    else:
        raise Unsupported("float operator %s" % op)
    memo[key] = r
    return r


def ideal(ret, args):
    """(ideal value, rounding budget) of an IntV result at integer arguments args (tuple)"""
    if not isinstance(ret, IntV):
        raise Unsupported("non-integer result")
    env = {"p%d" % k: Fraction(a) for k, a in enumerate(args)}
    return eval_key(ret.lin.key(), env, {})


def scan(V, run, truth, bound, clause, site, points_per_path=160, accept_box=None):
    """truth(x) -> (lo, hi) Fractions enclosing the exact result in raw units; bound(x) -> Fraction (raw units)."""
    import random
    rnd = random.Random(V.seed)
    worst = None
    evaluated = 0
    paths_ok = 0
    for p in run.paths:
        st = p.state
        lo, hi = st.bounds["p0"]
        if accept_box is not None:
            lo, hi = max(lo, accept_box[0]), min(hi, accept_box[1])
        if lo > hi:
            continue
        xs = {lo, hi, (lo + hi) // 2}
        n = points_per_path
        for j in range(1, n):
            xs.add(lo + (hi - lo) * j // n)
        for _ in range(n // 4):
            xs.add(rnd.randint(lo, hi))
        okp = False
        for x in sorted(xs):
            try:
                v, rho = ideal(p.ret, (x,))
            except Unsupported:
                break
            okp = True
            evaluated += 1
            tl, th = truth(x)
            dev = max(tl - v, v - th, Fraction(0))       # distance of the ideal value from the enclosure of the truth
            margin = dev - rho - bound(x)
            if worst is None or margin > worst[0]:
                worst = (margin, x, v, rho, (tl, th), p)
        if okp:
            paths_ok += 1
    V.cover["fxnum_points"] = V.cover.get("fxnum_points", 0) + evaluated
    V.cover["fxnum_paths"] = V.cover.get("fxnum_paths", 0) + paths_ok
    if worst is None:
        return None
    margin, x, v, rho, (tl, th), p = worst
    V.sample({"rule": "fxnum one-sided", "clause": clause, "worst_point": x, "ideal": float(v), "rounding_budget": float(rho),
              "truth": float(tl), "bound": float(bound(x)), "margin_raw_units": float(margin)})
    if margin > 0:
        out = run.conc((x,))
        got = out[1] if out[0] == "ret" else None
        actual_bad = got is None or (got < tl - bound(x) or got > th + bound(x))
        V.oblige(False)
        if actual_bad:
            V.violation(clause, site, "%s(%d) [%s]: the idealised expression of this path evaluates to %.3f with a rounding budget of %.3f raw units but the "
                        "exact result is %.3f and the allowed error is %.3f: the bound cannot be met (actual result %s)" % (
                            run.name, x, run.ctx.config, float(v), float(rho), float(tl), float(bound(x)), got),
                        {"wrapper": run.name, "args": [x], "config": run.ctx.config, "expected": clause,
                         "entry_source": run.ent.source(), "params": list(run.ent.params), "ret": run.ent.ret})
        else:
            V.inconc("%s: fxnum margin positive at x=%d but the concrete result %s is within the bound (engine inconsistency?)" % (run.name, x, got))
    else:
        V.oblige(True)
    return worst


# ------------------------------------------------------------------ cell-wise rigorous bounds (certifying direction)
Q = 1 << 96


def _out(a):
    """outward rounding of a Fraction interval to multiples of 2^-96 (keeps denominators bounded)"""
    lo = Fraction((a[0].numerator * Q) // a[0].denominator, Q)
    hi = Fraction(-((-a[1].numerator * Q) // a[1].denominator), Q)
    return (lo, hi)


def _mul(a, b):
    cs = (a[0] * b[0], a[0] * b[1], a[1] * b[0], a[1] * b[1])
    return _out((min(cs), max(cs)))


def _absmax(a):
    return max(abs(a[0]), abs(a[1]))


def cell_key(key, xiv, memo):
    """(value interval, derivative interval wrt the parameter, rounding budget) of a form over the cell xiv of parameter p0"""
    cn, d, items = key
    V = (Fraction(cn, d), Fraction(cn, d))
    D = (Fraction(0), Fraction(0))
    E = Fraction(0)
    for s, c in items:
        sv, sd, se = cell_sym(s, xiv, memo)
        co = Fraction(c, d)
        a = (sv[0] * co, sv[1] * co) if co >= 0 else (sv[1] * co, sv[0] * co)
        b = (sd[0] * co, sd[1] * co) if co >= 0 else (sd[1] * co, sd[0] * co)
        V = (V[0] + a[0], V[1] + a[1])
        D = (D[0] + b[0], D[1] + b[1])
        E += abs(co) * se
    return _out(V), _out(D), E


def cell_sym(s, xiv, memo):
    if s == "p0":
        return xiv, (Fraction(1), Fraction(1)), Fraction(0)
    if s in memo:
        return memo[s]
    ta = term_args(s) if isinstance(s, str) else None
    if ta is None:
        raise Unsupported("symbol %s" % (s,))
    op = ta[0]
    if op == "mul":
        a, da, ea = cell_key(ta[1], xiv, memo)
        b, db, eb = cell_key(ta[2], xiv, memo)
        V = _mul(a, b)
        t1 = _mul(da, b)
        t2 = _mul(a, db)
        D = (t1[0] + t2[0], t1[1] + t2[1])
        E = _absmax(a) * eb + _absmax(b) * ea + ea * eb
        r = (V, D, E)
    elif op == "lowbits":
        h = Fraction((1 << ta[2]) - 1, 2)
        r = ((h, h), (Fraction(0), Fraction(0)), h)
    elif op == "rem+":
        m = ta[2]
        if m > 4096:
            raise Unsupported("remainder modulo %d is a value, not rounding noise" % m)
        h = Fraction(m - 1, 2)
        r = ((h, h), (Fraction(0), Fraction(0)), h)
    elif op in ("sdiv", "udiv"):
        n, dn, en = cell_key(ta[2], xiv, memo)
        q, dq, eq = cell_key(ta[3], xiv, memo)
        if q[0] - eq <= 0 <= q[1] + eq:
            raise Unsupported("divisor may vanish on the cell")
        inv = (1 / q[1], 1 / q[0]) if q[0] > 0 else (1 / q[1], 1 / q[0])
        inv = (min(inv), max(inv))
        V = _mul(n, inv)
        # (n/q)' = n'/q - n q'/q^2
        t1 = _mul(dn, inv)
        t2 = _mul(_mul(n, dq), _mul(inv, inv))
        D = (t1[0] - t2[1], t1[1] - t2[0])
        qmin = min(abs(q[0]), abs(q[1]))
        E = (_absmax(n) * eq + _absmax(q) * en) / (qmin * (qmin - eq))
        sg = _quot_sign(n[0] - en, n[1] + en, q[0] - eq, q[1] + eq)
        memo.setdefault("__signs__", {})[s] = sg
        h = Fraction(1, 2)
        if sg > 0:
            r = ((V[0] - h, V[1] - h), D, E + h)
        elif sg < 0:
            r = ((V[0] + h, V[1] + h), D, E + h)
        else:
            r = (V, D, E + 1)
    elif op == "isqrt":
        a, da, ea = cell_key(ta[1], xiv, memo)
        if a[0] - ea <= 0:
            raise Unsupported("isqrt argument may vanish on the cell")
        lo = _sqrt_frac(a[0], False)
        hi = _sqrt_frac(a[1], True)
        h = Fraction(1, 2)
        D = _mul(da, (1 / (2 * hi), 1 / (2 * lo)))
        E = ea / (2 * _sqrt_frac(a[0] - ea, False)) + h
        r = ((lo - h, hi - h), D, E)
    elif op == "fptosi":
        z, dz, ez = fcell(ta[2], xiv, memo)
        if z[0] - ez >= 0:
            r = ((z[0] - Fraction(1, 2), z[1] - Fraction(1, 2)), dz, ez + Fraction(1, 2))
        elif z[1] + ez <= 0:
            r = ((z[0] + Fraction(1, 2), z[1] + Fraction(1, 2)), dz, ez + Fraction(1, 2))
        else:
            r = (z, dz, ez + 1)
    else:
        raise Unsupported("operator %s" % op)
    memo[s] = r
    return r


def fcell(t, xiv, memo):
    """(value interval, derivative interval, noise bound) of a floating expression over the cell"""
    key = ("f", t)
    if key in memo:
        return memo[key]
    ta = term_args(t)
    if ta is None:
        raise Unsupported("float term %s" % (t,))
    op = ta[0]
    Z = (Fraction(0), Fraction(0))
    if op == "cfp":
        v = Fraction(float(ta[-1]))
        r = ((v, v), Z, Fraction(0))
    elif op in ("sitofp", "uitofp"):
        V, D, E = cell_key(ta[2], xiv, memo)
        r = (V, D, E + _absmax(V) * FPREL)
    elif op in ("fpext", "fptrunc"):
        r = fcell(ta[1], xiv, memo)
    elif op == "fdiv":
        a, da, ea = fcell(ta[1], xiv, memo)
        b, db, eb = fcell(ta[2], xiv, memo)
        if b[0] - eb <= 0 <= b[1] + eb:
            raise Unsupported("float divisor may vanish on the cell")
        inv = (1 / b[1], 1 / b[0])
        inv = (min(inv), max(inv))
        V = _mul(a, inv)
        t1 = _mul(da, inv)
        t2 = _mul(_mul(a, db), _mul(inv, inv))
        bmin = min(abs(b[0]), abs(b[1]))
        r = (V, (t1[0] - t2[1], t1[1] - t2[0]), (_absmax(a) * eb + _absmax(b) * ea) / (bmin * (bmin - eb)) + _absmax(V) * FPREL)
    elif op == "fmul":
        a, da, ea = fcell(ta[1], xiv, memo)
        b, db, eb = fcell(ta[2], xiv, memo)
        V = _mul(a, b)
        t1, t2 = _mul(da, b), _mul(a, db)
        r = (V, (t1[0] + t2[0], t1[1] + t2[1]), _absmax(a) * eb + _absmax(b) * ea + ea * eb + _absmax(V) * FPREL)
    elif op in ("fadd", "fsub"):
        a, da, ea = fcell(ta[1], xiv, memo)
        b, db, eb = fcell(ta[2], xiv, memo)
        if op == "fadd":
            V, D = (a[0] + b[0], a[1] + b[1]), (da[0] + db[0], da[1] + db[1])
        else:
            V, D = (a[0] - b[1], a[1] - b[0]), (da[0] - db[1], da[1] - db[0])
        r = (V, D, ea + eb + _absmax(V) * FPREL)
    elif op == "fmuladd":
        a, da, ea = fcell(ta[1], xiv, memo)
        b, db, eb = fcell(ta[2], xiv, memo)
        c, dc, ec = fcell(ta[3], xiv, memo)
        P_ = _mul(a, b)
        V = (P_[0] + c[0], P_[1] + c[1])
        t1, t2 = _mul(da, b), _mul(a, db)
        D = (t1[0] + t2[0] + dc[0], t1[1] + t2[1] + dc[1])
        r = (V, D, _absmax(a) * eb + _absmax(b) * ea + ea * eb + ec + (_absmax(P_) + _absmax(V)) * FPREL)
    elif op == "sqrt":
        a, da, ea = fcell(ta[1], xiv, memo)
        if a[0] - ea <= 0:
            raise Unsupported("sqrt argument may be non-positive on the cell")
        lo = _sqrt_frac(a[0], False)
        hi = _sqrt_frac(a[1], True)
        # (sqrt u)' = u' / (2 sqrt u)
        inv = (1 / (2 * hi), 1 / (2 * lo))
        D = _mul(da, inv)
        # noise: |sqrt(u+e) - sqrt(u)| <= e / (2 sqrt(u - e))
        E = ea / (2 * _sqrt_frac(a[0] - ea, False)) + hi * FPREL
        r = ((lo, hi), D, E)
    else:
        raise Unsupported("float operator %s" % op)
    memo[key] = r
    return r


def cell_bound(ret, a, b, ends=None):
    """for every integer x in [a,b]: actual(x) is within  v(x0) + D*(x-x0) +- E  with x0 the midpoint.
    returns (x0, v(x0), D interval, E); if `ends` is a list, (v(a), v(b)) of the same idealisation are appended to it"""
    x0 = (a + b) // 2
    m = {}
    V, D, E = cell_key(ret.lin.key(), (Fraction(a), Fraction(b)), m)
    sg = m.get("__signs__", {})
    v0, rho0 = eval_key(ret.lin.key(), {"p0": Fraction(x0)}, {"__signs__": sg})
    E = max(E, rho0)
    if ends is not None:
        va, ra = eval_key(ret.lin.key(), {"p0": Fraction(a)}, {"__signs__": sg})
        vb, rb = eval_key(ret.lin.key(), {"p0": Fraction(b)}, {"__signs__": sg})
        E = max(E, ra, rb)
        ends.append((va, vb))
    return x0, v0, D, E


def prove_cells(V, run, truth, bound, clause, site, box=None, width=64, min_cells=100, extra_slack=Fraction(0), adapt=None, tag="", rng_acc=None, collect=None):
    """Certifying direction, generic: for every path of `run` and every cell [a,b] of its parameter box,
         |actual(x) - f(x)| <= |v(x0) - f(x0)| + max|D - f'| * |x - x0| + E
       must not exceed bound(a, b) - extra_slack.
       truth(a, b, x0) -> ((f0lo, f0hi), (dflo, dfhi)) in raw units / dimensionless; bound(a, b) -> Fraction or None (cell excluded).
       adapt(a) -> cell width to use from a on (optional). Failing cells are searched for a concrete violating argument."""
    from . import lib
    ncell = 0
    worst = None
    fails = []
    for p in run.paths:
        lo, hi = p.state.bounds["p0"]
        if box is not None:
            lo, hi = max(lo, box[0]), min(hi, box[1])
        a = lo
        while a <= hi:
            w = adapt(a) if adapt else width
            b = min(hi, a + w - 1)
            bd = bound(a, b)
            if bd is None:
                a = b + 1
                continue
            try:
                ends = [] if collect is not None else None
                x0, v0, D, E = cell_bound(p.ret, a, b, ends)
                if collect is not None:
                    collect.append({"a": a, "b": b, "path": id(p), "va": ends[0][0], "vb": ends[0][1], "E": E, "D": D, "x0": x0, "v0": v0})
                (f0l, f0h), (dl, dh) = truth(a, b, x0)
            except Unsupported as e:
                V.inconc("%s [%s]: idealised expression not available on cell [%d,%d]: %s" % (run.name, run.ctx.config, a, b, e))
                a = hi + 1
                break
            except ZeroDivisionError:
                fails.append((a, b, p, None, float(bd)))
                V.oblige(False)
                a = b + 1
                continue
            dmax = max(abs(D[0] - dh), abs(D[1] - dl), abs(D[0] - dl), abs(D[1] - dh))
            dx = max(x0 - a, b - x0)
            err = max(abs(v0 - f0l), abs(v0 - f0h)) + dmax * dx + E
            up = v0 + max(D[1] * (b - x0), D[0] * (a - x0), 0) + E
            dn = v0 + min(D[0] * (b - x0), D[1] * (a - x0), 0) - E
            if rng_acc is not None:
                rng_acc[0] = dn if rng_acc[0] is None else min(rng_acc[0], dn)
                rng_acc[1] = up if rng_acc[1] is None else max(rng_acc[1], up)
            ok = err + extra_slack <= bd
            V.oblige(ok)
            ncell += 1
            mg = bd - err - extra_slack
            if worst is None or mg < worst[0]:
                worst = (mg, a, b, float(err), float(bd))
            if not ok:
                fails.append((a, b, p, float(err), float(bd)))
            a = b + 1
    info = {"cells": ncell, "tightest_margin": None if worst is None else float(worst[0]),
            "tightest_cell": None if worst is None else list(worst[1:])}
    V.cover.setdefault("accuracy", {})[run.name + "/" + run.ctx.config + tag] = info
    if ncell < min_cells:
        V.broke("%s [%s]: only %d accuracy cells (expected >= %d)" % (run.name, run.ctx.config, ncell, min_cells))
    return fails, info


def triage_fails(V, run, fails, point_ok, clause, site, limit=40):
    """point_ok(x, outcome) -> True if the concrete result at x satisfies the clause. A failing cell with a violating point is a
    VIOLATION (the point is the witness); otherwise the cell stays INCONCLUSIVE."""
    from . import lib
    reported = False
    n_inc = 0
    for a, b, p, err, bd in fails[:limit]:
        hit = None
        xs = range(a, b + 1) if b - a <= 256 else [a + (b - a) * j // 256 for j in range(257)]
        for x in xs:
            out = run.conc((x,))
            if not point_ok(x, out):
                hit = (x, out)
                break
        if hit and not reported:
            reported = True
            V.violation(clause, site, "%s(%d) [%s] = %s violates '%s' (cell [%d,%d]: proved error bound %s, allowed %.3f raw units)" % (
                run.name, hit[0], run.ctx.config, lib.out_str(hit[1]), clause, a, b, "%.3f" % err if err is not None else "n/a", bd),
                lib.rp(run, (hit[0],), clause))
        elif not hit:
            n_inc += 1
            if n_inc <= 5:
                V.inconc("%s [%s]: '%s' not proved on cell [%d,%d] (error bound %s, allowed %.3f) and no violating argument in the cell" % (
                    run.name, run.ctx.config, clause, a, b, "%.3f" % err if err is not None else "n/a", bd))
    return reported


def near_monotone(cells, consts, slack, exact=None):
    """x <= y  =>  actual(x) <= actual(y) + slack (integers), from the cell records of prove_cells (collect=) and the constant
    paths consts = [(lo, hi, value)]; exact = {argument: result} overrides single-argument cells.  For x in cell i on path p and y in cell j on path r:
        actual(x) - actual(y) <= [v_p(x) + E_p] - [v_r(y) - E_r],   v_p(x) <= v_p(b_i) + s_p,   v_r(y) >= v_r(a_j) - s_r
    with s = max(0, -min D) * (b - a) the possible decrease of the idealised value inside a cell; the point values v(a), v(b) are exact
    rationals, so no chaining over intermediate cells is needed.  Returns (worst bound, where); the clause holds when worst < slack + 1."""
    recs = []
    exact = exact or {}
    for c in cells:
        if c["a"] == c["b"] and c["a"] in exact:
            # single argument whose result is known exactly (constant propagation): no idealisation, no budget
            if not any(r_[0] == c["a"] and r_[4] is None for r_ in recs):
                recs.append((c["a"], c["b"], Fraction(exact[c["a"]]), Fraction(exact[c["a"]]), None))
            continue
        s_ = max(Fraction(0), -c["D"][0]) * (c["b"] - c["a"])
        recs.append((c["a"], c["b"], c["vb"] + c["E"] + s_, c["va"] - c["E"] - s_, c))
    for lo, hi, v in consts:
        recs.append((lo, hi, Fraction(v), Fraction(v), None))
    recs.sort(key=lambda r_: (r_[0], r_[1]))
    worst = None
    pm = None            # prefix maximum of the high value at the right end over the cells before the current one
    # cells are disjoint or identical ranges (alternative paths over the same cell); group by range
    groups = []
    for r_ in recs:
        if groups and groups[-1][0] == (r_[0], r_[1]):
            groups[-1][1].append(r_)
        else:
            if groups and r_[0] <= groups[-1][0][1]:
                raise Unsupported("cells overlap without being identical: [%d,%d] and [%d,%d]" % (groups[-1][0] + (r_[0], r_[1])))
            groups.append(((r_[0], r_[1]), [r_]))
    for (a, b), g in groups:
        hb = max(r_[2] for r_ in g)
        la = min(r_[3] for r_ in g)
        # pairs in different cells
        if pm is not None:
            d = pm[0] - la
            if worst is None or d > worst[0]:
                worst = (d, "x in [%d,%d], y in [%d,%d]" % (pm[1][0], pm[1][1], a, b))
        # pairs inside this cell (possibly on different alternative paths)
        for p_ in g:
            for r_ in g:
                cp, cr = p_[4], r_[4]
                if cp is None or cr is None:
                    d = Fraction(0)
                elif cp is cr:
                    d = 2 * cp["E"] + max(Fraction(0), -cp["D"][0]) * (b - a)
                else:
                    # v_p(y) - v_r(y) over the cell, by the two first-order enclosures around the common midpoint
                    dx = max(cp["x0"] - a, b - cp["x0"])
                    dd = max(abs(cp["D"][1] - cr["D"][0]), abs(cp["D"][0] - cr["D"][1]))
                    d = (cp["v0"] - cr["v0"]) + dd * dx + cp["E"] + cr["E"] + max(Fraction(0), -cp["D"][0]) * (b - a)
                if worst is None or d > worst[0]:
                    worst = (d, "x <= y both in [%d,%d]" % (a, b))
        if pm is None or hb > pm[0]:
            pm = (hb, (a, b))
    return worst
