#!/usr/bin/env python3
"""Self-check (not a property check) of the interval oracle checks/realmath.py: the enclosures must be narrow (< 2^-200 wide) and must
contain the double-precision library value up to its own rounding error (1e-15 relative), and satisfy exact identities
(sin^2 + cos^2 == 1 inside the enclosure, atan(tan x) == x, asin(sin x) == x, sqrt(x)^2 == x) on random rational arguments."""
import math
import os
import random
import sys
from fractions import Fraction
sys.path.insert(0, os.path.dirname(os.path.dirname(os.path.abspath(__file__))))
from checks import realmath as R


def close(iv, ref, what, x, bad):
    lo, hi = R.to_frac(iv)
    tol = Fraction(1, 10 ** 14) * max(1, abs(Fraction(ref))) + Fraction(1, 10 ** 300)
    if not (lo - tol <= Fraction(ref) <= hi + tol) or hi - lo > Fraction(1, 1 << 180):
        bad.append("%s(%s): enclosure [%s, %s] vs libm %r" % (what, x, float(lo), float(hi), ref))


def main():
    rnd = random.Random(5)
    bad = []
    n = 0
    pl, ph = R.to_frac(R.pi())
    if not (pl <= Fraction(math.pi) + Fraction(1, 10 ** 15) and ph >= Fraction(math.pi) - Fraction(1, 10 ** 15) and ph - pl < Fraction(1, 1 << 200)):
        bad.append("pi enclosure [%s,%s]" % (float(pl), float(ph)))
    for _ in range(4000):
        x = Fraction(rnd.randint(-8 * 65536, 8 * 65536), 65536)
        s, c = R.sin_cos(R.iv(x))
        close(s, math.sin(float(x)), "sin", x, bad)
        close(c, math.cos(float(x)), "cos", x, bad)
        one = R.add(R.mul(s, s), R.mul(c, c))
        if not (one[0] <= R.SC <= one[1]):
            bad.append("sin^2+cos^2 at %s does not contain 1" % x)
        n += 3
    for _ in range(3000):
        e = rnd.uniform(-16, 31)
        x = Fraction(int(2.0 ** e * 65536) + 1, 65536) * rnd.choice((1, -1))
        a = R.atan_iv(R.iv(x))
        close(a, math.atan(float(x)), "atan", x, bad)
        n += 1
    for _ in range(3000):
        x = Fraction(rnd.randint(0, 65536), 65536)
        a = R.asin_iv(R.iv(x))
        close(a, math.asin(float(x)), "asin", x, bad)
        n += 1
    for _ in range(3000):
        x = Fraction(rnd.randint(1, 1 << 40), 65536)
        q = R.sqrt_iv(R.iv(x))
        close(q, math.sqrt(float(x)), "sqrt", x, bad)
        sq = R.mul(q, q)
        xi = R.iv(x)
        if not (sq[0] <= xi[1] and sq[1] >= xi[0]):
            bad.append("sqrt(%s)^2 does not contain the argument" % x)
        n += 2
    for k in range(1, 256):
        if k == 128:
            continue
        t = R.tan_frac_pi(k, 256)
        close(t, math.tan(k * math.pi / 256), "tan(pi*%d/256)" % k, k, bad)
        n += 1
    for b in bad[:10]:
        print("ORACLE? " + b)
    print("oraclecheck: %d evaluations, %d suspicious" % (n, len(bad)))
    return 1 if bad else 0


if __name__ == "__main__":
    sys.exit(main())
