"""C05: floating <-> fixed conversion: NaN/range clause, exactness of fixed->double, shape of fixed->float, identity of
fixed->double->fixed, and the half-ulp / ties-away rounding of floating -> fixed by a shape lemma on every converting path."""
import math
from . import common, lib
from .lib import M, FIN, E, sym, fbox
from fxai.interp import Broken
from fxai.state import IntV, FpV, Infeasible
from fxai.lin import term_args, Lin

from fractions import Fraction
import struct


def rn_float(fr):
    """the binary32 value nearest to the rational fr (ties to even), as a Python float"""
    if fr == 0:
        return 0.0
    sign = -1 if fr < 0 else 1
    a = abs(fr)
    e = a.numerator.bit_length() - a.denominator.bit_length()
    if Fraction(2) ** e > a:
        e -= 1
    # a in [2^e, 2^(e+1)); 24 significant bits: quantum 2^(e-23)
    q = a / (Fraction(2) ** (e - 23))
    n = q.numerator // q.denominator
    rem = q - n
    if rem > Fraction(1, 2) or (rem == Fraction(1, 2) and n % 2 == 1):
        n += 1
    return sign * float(Fraction(n) * Fraction(2) ** (e - 23))


def tie_candidates():
    """raw values whose quotient by 65536 sits next to a binary32 rounding tie (and a few ordinary ones)"""
    for k in range(24, 63):
        for c in (1, 3, 5):
            for j in (-1, 0, 1):
                v = (1 << k) + c * (1 << (k - 24)) + j
                if v < (1 << 63) - 1:
                    yield v
                    yield -v
        for j in (-1, 0, 1):
            v = (1 << k) + (1 << (k - 24)) + (1 << (k - 53 if k > 53 else 0)) + j
            if v < (1 << 63) - 1:
                yield v
    for v in (0, 1, -1, 65536, 98304, -98304, 12345678901234567, (1 << 53) + (1 << 29) + 1):
        yield v


def rounding_shape(p):
    """is the result of this path fptosi(fparam0 * 65536 + c) with c = +0.5 on v >= 0 and -0.5 on v < 0 ?"""
    r = p.ret
    if not isinstance(r, IntV):
        return False, "non-integer result"
    sg = r.lin.single()
    if sg is None or sg[1] != 1 or r.lin.cn != 0:
        return False, "result %s is not a single conversion" % (r.lin,)
    ta = term_args(sg[0])
    if ta is None or ta[0] != "fptosi":
        return False, "result is not a float->int conversion"
    t = term_args(ta[2])

    def cst(h):
        a = term_args(h)
        if a is not None and a[0] == "cfp":
            try:
                return float(a[-1])
            except ValueError:
                return None
        return None

    def is_param(h):
        a = term_args(h)
        while a is not None and a[0] in ("fpext",):
            a = term_args(a[1])
        return a is not None and a[0] == "fparam" and a[1] == 0
    c = None
    if t is None:
        return False, "?"
    if t[0] == "fmuladd":
        x, k, c_ = t[1], t[2], t[3]
        if not ((is_param(x) and cst(k) == 65536.0) or (is_param(k) and cst(x) == 65536.0)):
            return False, "the product is not v * 65536"
        c = cst(c_)
    elif t[0] == "fadd":
        for prod, c_ in ((t[1], t[2]), (t[2], t[1])):
            m = term_args(prod)
            if m is not None and m[0] == "fmul" and ((is_param(m[1]) and cst(m[2]) == 65536.0) or (is_param(m[2]) and cst(m[1]) == 65536.0)):
                c = cst(c_)
                break
        else:
            return False, "the sum is not v * 65536 + c"
    else:
        return False, "unexpected rounding expression %s" % t[0]
    lo, hi, nan = p.state.fb["f0"]
    if c == 0.5 and lo >= 0 and not nan:
        return True, ""
    if c == -0.5 and hi <= 0 and not nan:
        return True, ""              # at v == +-0 either offset truncates to 0
    return False, "offset %r on the input range [%r,%r]" % (c, lo, hi)


def rounds_ok(v, res, t):
    """res within 1/2 of 65536 v (ties away from zero), allowing one rounding of the sum 65536 v +- 1/2 in the carrier precision"""
    y = Fraction(v) * 65536
    e = abs(Fraction(res) - y)
    if e < Fraction(1, 2):
        return True
    prec = 24 if t == "f32" else 53
    a = abs(y) + Fraction(1, 2)
    k = a.numerator.bit_length() - a.denominator.bit_length()
    ulp = Fraction(2) ** (k + 1 - prec)
    if e == Fraction(1, 2) and abs(Fraction(res)) > abs(y):
        return True                      # an exact tie, resolved away from zero
    return e <= Fraction(1, 2) + ulp / 2 and e != Fraction(1, 2)


def round_candidates(t):
    """inputs next to rounding ties of 65536 v, both signs"""
    import itertools
    out = []
    for n in (0, 1, 2, 3, 7, 100, 65535, 65536, 1 << 20, (1 << 23) - 1, (1 << 24) - 3, (1 << 30) + 1, (1 << 40) + 5, (1 << 46) + 12345):
        for d in (Fraction(1, 2), Fraction(1, 4), Fraction(3, 4), Fraction(1, 2) - Fraction(1, 1 << 20), Fraction(1, 2) + Fraction(1, 1 << 20), 0):
            y = Fraction(n) + d
            v = float(y / 65536)
            if t == "f32":
                v = struct.unpack("<f", struct.pack("<f", v))[0]
            out.append(v)
            out.append(-v)
    return out


LIM = 2147483647.0
EXTRA = [
    E("w_rt_d", ["fx"], "fx", "return fixed_t(static_cast<double>(as_fixed(a))).v;"),
]
T53 = 1 << 53
T47 = (1 << 47) - 1


def run(tier, seed):
    V = common.Verdict("C05", tier, seed)
    configs = ["K17", "K20"] if tier == "quick" else ["K17", "K17A", "K20"]
    for cfg in configs:
        try:
            ctx = lib.Ctx(cfg, EXTRA)
            # ---- floating -> fixed: NaN exactly outside (-(2^31-1), 2^31-1), incl. inf and NaN
            for t in ("f32", "f64"):
                for w in ("w_ctor_" + t, "w_fp2f_" + t, "w_mk_" + t):
                    r = ctx.run(w)
                    for p in r.paths:
                        lo, hi, nan = p.state.fb["f0"]
                        rl, rh = lib.ret_rng(p)
                        if rl == rh == M:
                            ok = nan or lo > hi or lo >= LIM or hi <= -LIM
                            why = "returns NaN on a path that contains in-range values [%r,%r]" % (lo, hi)
                        else:
                            ok = (not nan) and lo > -LIM and hi < LIM and -M < rl and rh < M
                            why = "non-NaN result on a path with out-of-range / NaN inputs [%r,%r] nan=%s or result range [%d,%d]" % (lo, hi, nan, rl, rh)
                        V.oblige(ok)
                        if len(V.samples) < 6:
                            V.sample({"wrapper": w, "config": cfg, "input_range": [repr(lo), repr(hi), nan], "result": [rl, rh], "verdict": ok})
                        if not ok:
                            def bad(a, o):
                                v = a[0]
                                inr = (v == v) and abs(v) < LIM
                                if o[0] != "ret":
                                    return True
                                return (abs(o[1]) == M) == inr
                            import random
                            args, out = lib.search(r, p.state, bad, random.Random(seed))
                            if args is not None:
                                V.violation("NaN exactly outside the representable range", "floating_point_to_fixed",
                                            "%s(%r) [%s]: %s" % (w, args[0], cfg, lib.out_str(out)), lib.rp(r, args, "range clause"))
                            else:
                                V.inconc("%s: %s" % (w, why))
                    for a in r.alarms:
                        if a.status == "violation":
                            V.oblige(False)
                            V.violation(a.kind, a.site, "%s in %s(%s) at %s" % (a.kind, w, a.witness, a.where), lib.rp(r, a.witness, a.kind))
                        elif a.status == "inconclusive":
                            V.inconc("%s: %s at %s unresolved" % (w, a.kind, a.where))
            # ---- floating -> fixed, rounding: on every converting path the value number of the result is
            #      fptosi(v * 65536 (+) c) with c == +0.5 where v >= 0 and c == -0.5 where v < 0  (fused or not)
            for t in ("f32", "f64"):
                for w in ("w_ctor_" + t, "w_fp2f_" + t, "w_mk_" + t):
                    r = ctx.run(w)
                    nconv = 0
                    for p in r.paths:
                        rl, rh = lib.ret_rng(p)
                        if rl == rh == M:
                            continue
                        nconv += 1
                        ok, why = rounding_shape(p)
                        V.oblige(ok)
                        if ok:
                            continue
                        # a different expression: look for an input it does not round half away from zero (one rounding of the sum allowed)
                        wit = None
                        for v in round_candidates(t):
                            lo, hi, nan = p.state.fb["f0"]
                            if not (lo <= v <= hi):
                                continue
                            o = r.conc((v,))
                            if o[0] != "ret" or not rounds_ok(v, o[1], t):
                                wit = (v, o)
                                break
                        if wit:
                            V.violation("floating -> fixed rounds half away from zero", "floating_point_to_fixed",
                                        "%s(%r) [%s]: %s, but 65536*v = %s" % (w, wit[0], cfg, lib.out_str(wit[1]), Fraction(wit[0]) * 65536),
                                        lib.rp(r, (wit[0],), "rounding clause"))
                        else:
                            V.inconc("%s [%s]: converting path is not fptosi(v*65536 +- 0.5) (%s): the rounding clause is not decided for this shape" % (w, cfg, why))
                    if nconv == 0:
                        V.broke("%s [%s]: no converting path" % (w, cfg))
            # ---- fixed -> double exact for |raw| <= 2^53
            x = sym(0)
            for w in ("w_f2fp_f64", "w_cast_f64", "w_f2a_f64"):
                r = ctx.run(w, [("i", -T53, T53)])
                for p in r.paths:
                    rt = p.ret
                    ok = isinstance(rt, FpV) and rt.xlin is not None and rt.xlin.key() == x.div(65536).key()
                    V.oblige(ok)
                    if not ok:
                        V.inconc("%s [%s]: result is not shown to be exactly raw/65536 (shape %s)" % (w, cfg, getattr(rt, "term", rt)))
            # ---- fixed -> float: one correctly rounded conversion followed by an exact power-of-two division
            for w in ("w_f2fp_f32", "w_cast_f32", "w_f2a_f32"):
                r = ctx.run(w, [FIN])
                for p in r.paths:
                    rt = p.ret
                    ok = False
                    if isinstance(rt, FpV):
                        ta = term_args(rt.term)
                        if ta is not None and ta[0] == "fdiv":
                            cv = term_args(ta[1])
                            cc = term_args(ta[2])
                            ok = (cv is not None and cv[0] == "sitofp" and cv[1] == "float" and cv[2] == x.key()
                                  and cc is not None and cc[0] == "cfp" and cc[-1] == repr(65536.0))
                    V.oblige(ok)
                    if not ok:
                        # a different expression: look for an input whose result is not the correctly rounded value
                        wit = None
                        for raw in tie_candidates():
                            o = r.conc((raw,))
                            if o[0] != "ret" or o[1] != rn_float(Fraction(raw, 65536)):
                                wit = (raw, o)
                                break
                        if wit:
                            V.violation("fixed -> float is the correctly rounded value", "fixed_to_floating_point",
                                        "%s(%d) [%s]: %s but the correctly rounded float of raw/65536 is %r" % (
                                            w, wit[0], cfg, lib.out_str(wit[1]), rn_float(Fraction(wit[0], 65536))),
                                        lib.rp(r, (wit[0],), "correctly rounded"))
                        else:
                            V.inconc("%s [%s]: result is not sitofp_float(raw) / 65536.0f: correct rounding not decided for this shape" % (w, cfg))
            # ---- fixed -> double -> fixed is the identity on |x| < 2^31
            # (on 2^31-1 <= |x| < 2^31 the conversion back is NaN by the range clause of this same property; the identity is
            #  decided on the range the two clauses agree on)
            RT = (1 << 47) - 65536 - 1
            r = ctx.run("w_rt_d", [("i", -RT, RT)])
            lib.check_regions(V, r, [("|x|<2^31-1", [], ("lin", x))], lambda a, o: o != ("ret", a[0]), "fixed -> double -> fixed is the identity",
                              site="floating_point_to_fixed")
        except Broken as e:
            V.broke("%s: %s" % (cfg, e))
    expl = ("DECIDED: float and double -> fixed: every path that converts has its input range inside (-(2^31-1), 2^31-1) with NaN excluded and a "
            "non-NaN result; every other path (too large, +-inf, NaN: the false edges of the ordered comparisons) returns the NaN constant; no "
            "float-cast trap is reachable. fixed -> double: the returned value equals raw/65536 exactly on |raw| <= 2^53 (sitofp exact, division "
            "by 2^16 exact). fixed -> float: the value number is sitofp_float(raw)/65536.0f, one correctly rounded conversion followed by an "
            "exact scaling. fixed -> double -> fixed returns the form x on |x| < 2^31 (exact scaling, +-0.5 exact below 2^52, truncation toward "
            "zero); for 2^31-1 <= |x| < 2^31 the range clause of the same property makes the conversion back NaN, so the identity is decided "
            "on |x| < 2^31-1, where the two clauses agree. Rounding of floating -> fixed: on every converting path the "
            "value number of the result is fptosi(v * 65536 (+) c), fused or not, with c == +0.5 on the paths whose input range is >= 0 and "
            "c == -0.5 on those below 0; the scaling by 2^16 is exact for |v| < 2^31, so the result is trunc(RN(65536 v +- 1/2)): 65536 v rounded "
            "half away from zero, up to the one rounding RN of the sum in the carrier's precision - which is what the clause states. A path of a "
            "different shape is tested on directed near-tie inputs against an exact rational oracle.")
    return V.finish("other", expl, "./fx check C05 --tier %s" % tier, extra={"configs": configs})
