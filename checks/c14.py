"""C14: hypot is symmetric, never NaN/negative on the domain, and computed without intermediate wrap (decided);
the 2 ulp / 1.5e-4 accuracy bounds are not decided."""
import random
from . import common, lib
from .lib import M, E, sym
from fxai.interp import Broken
from fxai.conc import Conc
from fxai import ir as IR

T47 = (1 << 47) - 1
DOM = ("i", -T47, T47)
A, B = "as_fixed(a)", "as_fixed(b)"
EXTRA = [
    E("w_hypot_sw", ["fx", "fx"], "fx", "return hypot(%s, %s).v;" % (B, A)),
    E("w_hypot_abs", ["fx", "fx"], "fx", "return hypot(abs(%s), abs(%s)).v;" % (A, B)),
]


def src_line(mod, inst, repo):
    ch = IR.dbg_chain(mod, inst.dbg)
    if not ch:
        return "?", "?"
    fn, f, ln = ch[0][:3]
    import os
    path = f if os.path.isabs(f) else os.path.join(repo, f)
    try:
        text = open(path, errors="replace").read().split("\n")[ln - 1].strip()
    except Exception:
        text = "line %d" % ln
    return fn, " ".join(text.split())


def run(tier, seed):
    V = common.Verdict("C14", tier, seed)
    plan = ["K17", "K17A", "K20"]
    from fxai import pipeline as P
    for cfg in plan:
        try:
            # under the abacus build the sqrt loop is a verified integer square root (fxai.isqrt): the engine applies the summary
            # isqrt(N), a value-numbered term, so that the programs compared for symmetry share it
            ctx = lib.Ctx(cfg, EXTRA, only={"w_hypot", "w_hypot_sw", "w_hypot_abs"}, summaries=(cfg == "K17A"))
            r = ctx.run("w_hypot", [DOM, DOM])
            if len(r.paths) < 50:
                V.broke("w_hypot: only %d paths" % len(r.paths))
            if cfg == "K17A":
                nsum = r.stats.get("loop_summaries", 0)
                V.oblige(nsum > 0)
                V.cover.setdefault("abacus_summaries_applied", {})[cfg] = nsum
                if not nsum:
                    V.inconc("w_hypot [%s]: the sqrt loop was not recognised as a verified integer square root (%s)" % (cfg, r.an.isqrt_why))
            if cfg != "K17A" or r.stats.get("loop_summaries", 0):
                lib.check_equiv(V, r, ctx.run("w_hypot_sw", [DOM, DOM]), "hypot(a,b) == hypot(b,a)", site="hypot")
                lib.check_equiv(V, r, ctx.run("w_hypot_abs", [DOM, DOM]), "hypot(a,b) == hypot(|a|,|b|)", site="hypot")
            # never NaN, never negative
            lib.check_regions(V, r, [("domain", [], ("range", 0, M - 1))], lambda a, o: o[0] != "ret" or not (0 <= o[1] < M),
                              "hypot is never NaN or negative for |a|,|b| < 2^31", site="hypot")
            for a in r.alarms:
                if a.status == "violation":
                    V.oblige(False)
                    V.violation(a.kind, a.site, "%s in w_hypot(%s) [%s] at %s" % (a.kind, a.witness, cfg, a.where), lib.rp(r, a.witness, a.kind))
                elif a.status == "inconclusive":
                    V.inconc("w_hypot [%s]: %s at %s unresolved" % (cfg, a.kind, a.where))
            # no intermediate (unsigned) wrap in hypot's own arithmetic
            fn = r.an.fn
            lines = {}
            for b in fn.blocks.values():
                for i in b.insts:
                    if i.op in ("mul", "add", "shl") and "nsw" not in i.attrs:
                        f, text = src_line(r.an.mod, i, P.REPO)
                        if f == "hypot":
                            lines[i.line] = (i, text)
            if len(lines) < 6:
                V.broke("w_hypot [%s]: only %d wrapping arithmetic instructions attributed to hypot (expected >= 6)" % (cfg, len(lines)))
            events = [n for p in r.paths for n in p.state.notes if n[0] == "uwrap"] + [n for n in r.res.dropped_notes if n[0] == "uwrap"]
            may = {}
            for (_, ln, op, lo, hi) in events:
                if ln in lines:
                    may.setdefault(ln, []).append((lo, hi))
            for ln, (i, text) in sorted(lines.items()):
                if ln not in may:
                    V.oblige(True)
                    continue
                # confirm with a concrete input that makes this instruction wrap
                cx = Conc(r.an)
                cx.uwraps = set()
                rnd = random.Random(seed)
                wit = None
                cands = []
                for p in r.paths:
                    if any(n[0] == "uwrap" and n[1] == ln for n in p.state.notes):
                        cands.append(p.state)
                budget = 1500
                from fxai.witness import candidates
                for st in cands[:12]:
                    for args in candidates(r.an, st, rnd, 120):
                        budget -= 1
                        cx.uwraps.clear()
                        out = cx.run(args)
                        if ln in cx.uwraps:
                            wit = (args, out)
                            break
                    if wit or budget < 0:
                        break
                V.oblige(False)
                site = "hypot@" + text
                if wit:
                    args, out = wit
                    V.violation("unsigned-wrap(%s)" % i.op, site, "hypot(%s) [%s]: '%s' wraps modulo 2^64 in '%s': the sum of squares handed to sqrt is "
                                "wrong, result %s" % (", ".join(map(str, args)), cfg, i.op, text, lib.out_str(out)), lib.rp(r, args, "no intermediate wrap"))
                else:
                    V.inconc("w_hypot [%s]: '%s' in '%s' may wrap modulo 2^64 (exact range up to %d) and no witness found" % (
                        cfg, i.op, text, max(h for _, h in may[ln])))
        except Broken as e:
            V.broke("%s: %s" % (cfg, e))
    expl = ("DECIDED on |a|,|b| < 2^47 raw: hypot(a,b) == hypot(b,a) == hypot(|a|,|b|) by summary equivalence of the inlined programs "
            "(under the abacus build the sqrt loop, a verified integer square root, enters as the value-numbered summary isqrt(N)); for K17, K17A and K20: the result interval is inside [0, max] on every path (never NaN, never negative); and "
            "every add/mul/shl that hypot itself performs on the unsigned operands stays below 2^64 (wrap events are recorded by the "
            "abstract interpreter per instruction; an instruction whose exact result range reaches 2^64 is confirmed by a concrete witness). "
            "NOT DECIDED: the 2 ulp / 1.5e-4 accuracy bounds.")
    return V.finish("other", expl, "./fx check C14 --tier %s" % tier, extra={"configs": plan})
