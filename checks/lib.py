"""Summary-based checking: post-conditions over path summaries and summary equivalence of wrapper pairs."""
import random
import re
from fxai import runner, pipeline as P
from fxai.interp import Analyzer, Broken
from fxai.state import IntV, BoolV, FpV, Infeasible
from fxai.lin import Lin, term_str
from fxai.conc import Conc
from fxai.witness import candidates, find_witness
from spec import entry as ENT

M = (1 << 63) - 1
FIN = ("i", -(M - 1), M - 1)          # finite fixed_t
ANYFX = ("i", -M, M)                  # finite or +-NaN


def E(name, params, ret, body, api="", group="prop"):
    return ENT.Entry(name, params, ret, body, api, group)


class Ctx:
    """one build (configuration + extra wrappers) and cached analyses"""

    def __init__(self, config, extra=(), only=None, lowbits_canon=False, partition_ops=(), summaries=False, track_mono=False, optional=()):
        self.config = config
        self.optional = set(optional)
        self.summaries = summaries
        self.track_mono = track_mono
        self.lowbits_canon = lowbits_canon
        self.partition_ops = tuple(partition_ops)
        self.built = runner.build(config, extra_entries=list(extra), only=only, optional=self.optional)
        self.cache = {}

    def run(self, name, boxes=None, refine=True, seed=0):
        key = (name, repr(boxes))
        if key in self.cache:
            return self.cache[key]
        ent = self.built.entries.get(name)
        if ent is None:
            raise Broken("ANALYSIS-BROKEN: wrapper %s is not in the build (anchor vanished?)" % name)
        boxes = boxes or runner.default_boxes(ent)
        res, alarms, stats, an = runner.analyze_entry(self.built, name, boxes=boxes, rnd=random.Random(seed),
                                                      refine_depth=1 if refine else 0, want_paths=True,
                                                      opts={"lowbits_canon": self.lowbits_canon, "partition_ops": self.partition_ops,
                                                            "summaries": self.summaries, "track_mono": self.track_mono})
        r = Run(self, name, ent, boxes, res, alarms, stats, an)
        self.cache[key] = r
        return r


class Run:
    def __init__(self, ctx, name, ent, boxes, res, alarms, stats, an):
        self.ctx = ctx
        self.name = name
        self.ent = ent
        self.boxes = boxes
        self.res = res
        self.paths = res.paths
        self.alarms = alarms
        self.stats = stats
        self.an = an

    def conc(self, args):
        return Conc(self.an).run(args)


def pbox(st):
    return {k: v for k, v in st.bounds.items() if isinstance(k, str) and re.fullmatch(r"p\d+", k)}


def fbox(st):
    return {k: v for k, v in st.fb.items() if re.fullmatch(r"f\d+", k)}


def ret_rng(p):
    r = p.ret
    if isinstance(r, IntV):
        return p.state.rng(r)
    if isinstance(r, BoolV):
        if r.tv is None:
            return (0, 1)
        return (int(r.tv), int(r.tv))
    return None


def is_const(p, v):
    rr = ret_rng(p)
    return rr is not None and rr[0] == rr[1] == v


def lin_rng(p, lin):
    return p.state.rng_lin_int(lin)


def sym(k):
    return Lin.sym("p%d" % k)


def feasible_with(st, refs):
    """is the path state consistent with extra constraints [(lin, lo, hi)]? returns the refined state or None"""
    s2 = st.fork()
    try:
        for lin, lo, hi in refs:
            s2.constrain(lin, lo, hi)
        s2.retighten_products()
    except Infeasible:
        return None
    return s2


def describe_path(p):
    r = p.ret
    if isinstance(r, IntV):
        rd = "%s in %s" % (str(r.lin)[:120], p.state.rng(r))
    elif isinstance(r, FpV):
        rd = "fp %s" % term_str(r.term, 3)[:120]
    else:
        rd = repr(r)
    return {"box": {k: list(v) for k, v in pbox(p.state).items()}, "fbox": {k: list(map(repr, v)) for k, v in fbox(p.state).items()},
            "ret": rd}


def search(run, st, bad, rnd, limit=3000):
    """look for a concrete input in the path box for which `bad(args, outcome)` holds; returns args or None"""
    for args in candidates(run.an, st, rnd, limit):
        out = run.conc(args)
        try:
            if bad(args, out):
                return args, out
        except Exception:
            continue
    return None, None


def check_post(V, run, accept, oracle_bad, clause, rnd=None, site=None):
    """every path of `run` must satisfy accept(path) (static). A failing path is a VIOLATION when a concrete input of
    that path makes oracle_bad(args, outcome) true, otherwise INCONCLUSIVE."""
    rnd = rnd or random.Random(V.seed)
    for p in run.paths:
        ok = False
        why = ""
        try:
            r = accept(p)
            ok, why = (r if isinstance(r, tuple) else (r, ""))
        except Infeasible:
            ok = True      # path became infeasible under the clause's region
        V.oblige(ok)
        if len(V.samples) < 10:
            d = describe_path(p)
            d.update({"wrapper": run.name, "clause": clause, "verdict": "proved" if ok else "open"})
            V.sample(d)
        if ok:
            continue
        args, out = search(run, p.state, oracle_bad, rnd)
        d = describe_path(p)
        if args is not None:
            text = "%s: clause '%s' fails for %s(%s) [%s]: outcome %s; path %s %s" % (
                run.name, clause, run.name, ", ".join(map(repr, args)), run.ctx.config, out_str(out), d, why)
            V.violation(clause, site or run.ent.api or run.name, text,
                        rp(run, args, clause))
        else:
            V.inconc("%s: clause '%s' not proved on path %s %s and no concrete counter-example found" % (run.name, clause, d, why))
    # alarms inside the clause's domain are reported by C07; here they only make the run inconclusive if unresolved
    for a in run.alarms:
        if a.status == "inconclusive":
            V.inconc("%s: %s at %s unresolved" % (run.name, a.kind, a.where))


def rp(run, args, clause):
    return {"wrapper": run.name, "args": list(args), "config": run.ctx.config, "expected": clause,
            "entry_source": run.ent.source(), "params": list(run.ent.params), "ret": run.ent.ret}


def out_str(out):
    if out is None:
        return "?"
    if out[0] == "ret":
        return "returns %r" % (out[1],)
    if out[0] == "trap":
        return "traps (%s)" % out[1]
    return out[0]


# ------------------------------------------------------------------ summary equivalence
def same_value(st, ra, rb):
    if isinstance(ra, IntV) and isinstance(rb, IntV):
        if ra.lin.key() == rb.lin.key():
            return True
        lo, hi = st.rng_lin_int(ra.lin.sub(rb.lin))
        return lo == hi == 0
    if isinstance(ra, BoolV) and isinstance(rb, BoolV):
        if ra.tv is not None and ra.tv == rb.tv:
            return True
        from fxai.state import pred_key
        return ra.tv is None and rb.tv is None and pred_key(ra.pred) == pred_key(rb.pred)
    if isinstance(ra, FpV) and isinstance(rb, FpV):
        if ra.term == rb.term:
            return True
        if ra.lo == ra.hi == rb.lo == rb.hi and not ra.nan and not rb.nan:
            return True
        return ra.xlin is not None and rb.xlin is not None and ra.xlin.key() == rb.xlin.key()
    if isinstance(ra, BoolV) and isinstance(rb, IntV) or isinstance(ra, IntV) and isinstance(rb, BoolV):
        return False
    return False


def join_states(sa, sb):
    """conjunction of two path states of wrappers with the same parameters (symbols are term-named, hence shared)"""
    s = sa.fork()
    try:
        for k, (lo, hi) in sb.bounds.items():
            if k in s.bounds:
                s.constrain(Lin.sym(k), lo, hi)
            else:
                s.bounds[k] = (lo, hi)
        for nk, (lo, hi) in sb.cons.items():
            s.constrain(Lin(0, dict(nk)), lo, hi)
        for k, (lo, hi, nan) in sb.fb.items():
            if k in s.fb:
                a, z, n = s.fb[k]
                lo2, hi2, n2 = max(a, lo), min(z, hi), n and nan
                if lo2 > hi2 and not n2:
                    return None
                s.fb[k] = (lo2, hi2, n2)
            else:
                s.fb[k] = (lo, hi, nan)
        for k, v in sb.prodl.items():
            s.prodl.setdefault(k, v)
        for k, v in sb.cmod.items():
            if k not in s.cmod:
                s.cmod = dict(s.cmod)
                s.cmod[k] = v
        s.retighten_products()
    except Infeasible:
        return None
    return s


def reanalyse_joint(ra, rb, st, depth=0):
    """the forms of a path pair differ: re-analyse both entry points on the joint parameter box (it is smaller than
    either path's box, e.g. a boundary value shared by two case splits) and compare again"""
    boxes = []
    for k, (pn, ty) in enumerate(ra.an.fn.params):
        if ty.kind == "int":
            b = st.bounds.get("p%d" % k)
            if b is None:
                return False
            boxes.append(("i", b[0], b[1]))
        else:
            f = st.fb.get("f%d" % k)
            if f is None:
                return False
            boxes.append(("f", f[0], f[1], f[2]))
    # only worthwhile when the joint box is thin in some dimension
    thin = any(b[0] == "i" and b[2] - b[1] <= 4 for b in boxes)
    if not thin:
        return False
    try:
        qa = ra.an.run(P.init_state(ra.an.fn, boxes))
        qb = rb.an.run(P.init_state(rb.an.fn, boxes))
    except (Broken, Infeasible):
        return False
    if qa.alarms or qb.alarms or not qa.paths or not qb.paths:
        return False
    for x in qa.paths:
        for y in qb.paths:
            s2 = join_states(x.state, y.state)
            if s2 is None:
                continue
            if not same_value(s2, x.ret, y.ret):
                return False
    return True


def check_equiv(V, ra, rb, clause, rnd=None, site=None, differ=None):
    """for all inputs: ra and rb return the same value. Path pairs with an empty joint region are skipped;
    a pair whose returned forms differ is confirmed by concrete evaluation of both wrappers."""
    rnd = rnd or random.Random(V.seed)
    npairs = 0
    boxes_b = [pbox(pb.state) for pb in rb.paths]
    for pa in ra.paths:
        ba = pbox(pa.state)
        for pb, bb in zip(rb.paths, boxes_b):
            # cheap prefilter: parameter boxes must intersect
            disjoint = False
            for k, (lo, hi) in ba.items():
                o = bb.get(k)
                if o is not None and (o[0] > hi or o[1] < lo):
                    disjoint = True
                    break
            if disjoint:
                continue
            st = join_states(pa.state, pb.state)
            if st is None:
                continue
            npairs += 1
            ok = same_value(st, pa.ret, pb.ret)
            if not ok:
                ok = reanalyse_joint(ra, rb, st)
            V.oblige(ok)
            V.cover["disagreements_checked"] = V.cover.get("disagreements_checked", 0) + (0 if ok else 1)
            if ok:
                continue

            def bad(args, out):
                o2 = rb.conc(args)
                if differ is not None:
                    return differ(args, out, o2)
                if out[0] != "ret" or o2[0] != "ret":
                    return out[0] != o2[0]
                a, b = out[1], o2[1]
                if isinstance(a, float) and isinstance(b, float) and a != a and b != b:
                    return False
                return a != b
            args, out = search(ra, st, bad, rnd)
            d = {"a": describe_path(pa), "b": describe_path(pb)}
            if args is not None:
                text = "%s vs %s: '%s' fails for arguments (%s) [%s]: %s vs %s" % (
                    ra.name, rb.name, clause, ", ".join(map(repr, args)), ra.ctx.config, out_str(out), out_str(rb.conc(args)))
                V.violation(clause, site or ra.ent.api or ra.name, text,
                            dict(rp(ra, args, clause), other=rb.name, other_source=rb.ent.source()))
            else:
                V.inconc("%s vs %s: '%s': returned forms differ on a joint path and no concrete disagreement found: %s" % (
                    ra.name, rb.name, clause, d))
    V.cover["programs"] = V.cover.get("programs", 0) + 2
    if npairs == 0:
        V.broke("%s vs %s: no jointly feasible path pair (vacuous comparison)" % (ra.name, rb.name))
    if len(V.samples) < 10:
        V.sample({"pair": [ra.name, rb.name], "clause": clause, "joint_path_pairs": npairs})
    return npairs


# ------------------------------------------------------------------ region checks
def check_regions(V, run, regions, oracle_bad, clause, rnd=None, site=None):
    """regions: list of (name, [(lin, lo, hi)...], expect) with expect one of
         ('lin', Lin)            the returned value equals this form
         ('const', v)            the returned value is the constant v
         ('diff', Lin, lo, hi)   ret*scale - Lin within [lo,hi]   given as ('diff', scale, Lin, lo, hi)
         ('range', lo, hi)       returned value within [lo,hi]
         ('tz', k)               returned value is a multiple of 2^k
       Every path whose state meets a region must satisfy the expectation on the intersection."""
    rnd = rnd or random.Random(V.seed)
    hit = {name: 0 for name, _, _ in regions}
    for p in run.paths:
        for name, cons, expect in regions:
            s2 = feasible_with(p.state, cons)
            if s2 is None:
                continue
            hit[name] += 1
            ok, why = holds(s2, p.ret, expect)
            V.oblige(ok)
            if len(V.samples) < 10:
                d = describe_path(p)
                d.update({"wrapper": run.name, "clause": clause, "region": name, "verdict": "proved" if ok else "open"})
                V.sample(d)
            if ok:
                continue
            args, out = search(run, s2, oracle_bad, rnd)
            d = describe_path(p)
            if args is not None:
                text = "%s: clause '%s' (region %s) fails for %s(%s) [%s]: %s; %s" % (
                    run.name, clause, name, run.name, ", ".join(map(repr, args)), run.ctx.config, out_str(out), why)
                V.violation(clause, site or run.ent.api or run.name, text,
                            rp(run, args, clause))
            else:
                V.inconc("%s: clause '%s' region %s not proved on path %s (%s) and no concrete counter-example found" % (
                    run.name, clause, name, d, why))
    for name, n in hit.items():
        if n == 0:
            V.broke("%s: region '%s' of clause '%s' met by no path (vacuous)" % (run.name, name, clause))
    for a in run.alarms:
        if a.status == "inconclusive":
            V.inconc("%s: %s at %s unresolved" % (run.name, a.kind, a.where))
        elif a.status == "violation":
            V.notes.append("%s: %s at %s (reported under C07)" % (run.name, a.kind, a.where))


def holds(st, ret, expect):
    kind = expect[0]
    try:
        if isinstance(ret, BoolV):
            if kind == "const":
                if ret.tv is not None:
                    return (int(ret.tv) == expect[1]), "returns %s" % ret.tv
                return False, "boolean result not decided on this region"
            return False, "boolean result"
        if isinstance(ret, FpV):
            return False, "floating result"
        lo, hi = st.rng(ret)
        if kind == "const":
            return (lo == hi == expect[1]), "result in [%d,%d], expected %d" % (lo, hi, expect[1])
        if kind == "lin":
            if ret.lin.key() == expect[1].key():
                return True, ""
            a, z = st.rng_tight(ret.lin.sub(expect[1]))
            return (a == z == 0), "result %s differs from %s by [%d,%d]" % (ret.lin, expect[1], a, z)
        if kind == "diff":
            _, scale, L, dlo, dhi = expect
            a, z = st.rng_lin_int(ret.lin.scale(scale).sub(L))
            return (dlo <= a and z <= dhi), "result*%d - (%s) in [%d,%d], allowed [%d,%d]" % (scale, L, a, z, dlo, dhi)
        if kind == "range":
            return (expect[1] <= lo and hi <= expect[2]), "result in [%d,%d], allowed [%d,%d]" % (lo, hi, expect[1], expect[2])
        if kind == "tz":
            if ret.tz >= expect[1]:
                return True, ""
            L = ret.lin
            if L.d == 1 and all(c % (1 << expect[1]) == 0 for c in list(L.t.values()) + [L.cn]):
                return True, ""
            if L.d == 1 and len(L.t) > 1 and L.cn % (1 << expect[1]) == 0:
                nk, g, _, _ = L.normalized()
                m = st.cmod.get(nk)
                if m is not None and (m * abs(g)) % (1 << expect[1]) == 0:
                    return True, ""       # the form is recorded as a multiple of m (relation of a low-bits symbol)
            return False, "result not shown to be a multiple of 2^%d" % expect[1]
    except Infeasible:
        return True, ""
    return False, "unknown expectation"


def check_bool(V, run, spec_truth, oracle_bad, clause, rnd=None, site=None):
    """boolean wrappers: on every path, the result (decided, or a predicate) must agree with spec_truth(state)
    which returns True/False/None for a refined state."""
    rnd = rnd or random.Random(V.seed)
    an = run.an
    for p in run.paths:
        r = p.ret
        st = p.state
        cases = []
        if isinstance(r, IntV):
            lo, hi = st.rng(r)
            if lo == hi:
                cases = [(bool(lo), st)]
            elif r.pred is not None:
                r = BoolV(None, r.pred)
            else:
                cases = None
        if isinstance(r, BoolV):
            if r.tv is not None:
                cases = [(r.tv, st)]
            else:
                cases = []
                for truth in (True, False):
                    for refs in an.refine(st, r.pred, truth):
                        s2 = st.fork()
                        try:
                            an.apply(s2, refs)
                        except Infeasible:
                            continue
                        cases.append((truth, s2))
        ok = cases is not None
        why = ""
        if ok:
            for truth, s2 in cases:
                t = spec_truth(s2)
                if t is None or t != truth:
                    ok = False
                    why = "result %s on a region where the specification is %s" % (truth, "undecided" if t is None else t)
                    break
        V.oblige(ok)
        if len(V.samples) < 10:
            d = describe_path(p)
            d.update({"wrapper": run.name, "clause": clause, "verdict": "proved" if ok else "open"})
            V.sample(d)
        if ok:
            continue
        args, out = search(run, st, oracle_bad, rnd)
        if args is not None:
            text = "%s: '%s' fails for %s(%s) [%s]: %s" % (run.name, clause, run.name, ", ".join(map(repr, args)), run.ctx.config, out_str(out))
            V.violation(clause, site or run.ent.api or run.name, text,
                        rp(run, args, clause))
        else:
            V.inconc("%s: '%s' not proved on path %s (%s)" % (run.name, clause, describe_path(p), why))


# ------------------------------------------------------------------ exact monotonicity from direction tags
def check_monotone(V, run, lo, hi, clause, site, direction=1):
    """x < y in [lo,hi]  =>  f(x) <= f(y) (direction=1) for a one-parameter wrapper analysed with track_mono:
      (1) every path's returned value carries the direction tag (fxai.interp.tag_mono: composition of operations that are
          monotone on the path - sums, products of sign-definite factors, shifts, divisions by constants, conversions,
          correctly rounded float operations, sqrt, the verified isqrt summary);
      (2) the parameter boxes of the paths, sorted, overlap at most in their end points and leave no gap, so each path's
          actual domain is its open box plus possibly the end points;
      (3) at every junction the values at the (up to four) arguments around it, obtained by constant propagation, are in order.
    A junction out of order is a violation with those two arguments as witness."""
    from fxai import pipeline as P
    cfg = run.ctx.config
    paths = [p for p in run.paths if p.state.bounds["p0"][1] >= lo and p.state.bounds["p0"][0] <= hi]
    if not paths:
        V.broke("%s [%s]: no path on [%d,%d]" % (run.name, cfg, lo, hi))
        return False
    paths.sort(key=lambda p: p.state.bounds["p0"])
    ok_all = True
    for p in paths:
        a, b = p.state.bounds["p0"]
        rr = ret_rng(p)
        ok = p.mono in (direction, 0) or a == b or (rr is not None and rr[0] == rr[1])     # a constant is monotone
        V.oblige(ok)
        if not ok:
            ok_all = False
            V.inconc("%s [%s]: the value returned on the path with argument box [%d,%d] is not established to be monotone (%s): %s" % (
                run.name, cfg, a, b, p.mono, describe_path(p)["ret"][:160]))
    pts = set()
    prev = None
    for p in paths:
        a, b = p.state.bounds["p0"]
        a, b = max(a, lo), min(b, hi)
        if prev is not None:
            okj = prev <= a <= prev + 1
            V.oblige(okj)
            if not okj:
                ok_all = False
                V.inconc("%s [%s]: argument boxes of the paths overlap or leave a gap around %d..%d: path domains are not intervals" % (run.name, cfg, prev, a))
            for q in (prev - 1, prev, a, a + 1):
                if lo <= q <= hi:
                    pts.add(q)
        prev = b
    pts.add(lo)
    pts.add(hi)
    vals = {}
    for q in sorted(pts):
        rs = run.an.run(_mono_init(run, q))
        vs = set(ret_rng(z) for z in rs.paths)
        if len(vs) == 1 and not rs.alarms:
            l_, h_ = next(iter(vs))
            if l_ == h_:
                vals[q] = l_
        if q not in vals:
            ok_all = False
            V.oblige(False)
            V.inconc("%s [%s]: value at the junction argument %d not decided by constant propagation" % (run.name, cfg, q))
    seq = sorted(vals)
    for q0, q1 in zip(seq, seq[1:]):
        if q1 - q0 > 1:
            continue        # separated by the interior of one path
        okv = (vals[q0] <= vals[q1]) if direction > 0 else (vals[q0] >= vals[q1])
        V.oblige(okv)
        if not okv:
            ok_all = False
            V.violation(clause, site, "%s(%d) = %d but %s(%d) = %d [%s]" % (run.name, q0, vals[q0], run.name, q1, vals[q1], cfg),
                        rp(run, (q0,), clause + ": compare with argument %d" % q1))
    V.cover.setdefault("monotone", {})[run.name + "/" + cfg] = {"paths": len(paths), "junction_arguments": len(pts)}
    return ok_all


def _mono_init(run, q):
    from fxai import pipeline as P
    return P.init_state(run.an.fn, [("i", q, q)])
