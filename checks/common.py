"""Shared plumbing of the property checks: verdicts, known findings, replay files, evidence."""
import hashlib
import json
import os
import re
import sys
import time

ROOT = os.path.dirname(os.path.dirname(os.path.abspath(__file__)))
KNOWN = os.path.join(ROOT, "known_findings.txt")

TRUSTED_BASE = [
    "clang 14 front end incl. UBSan check generation (-fsanitize=signed-integer-overflow,shift,integer-divide-by-zero,float-cast-overflow)",
    "llvm-link-14, opt-14 passes always-inline, inline, sroa (no UB-exploiting pass is run)",
    "fxai IR parser and transfer functions (/verif/fxai), cross-checked by selftest mutants/benign variants and by replay of witnesses",
    "IEEE-754 binary32/binary64 with round-to-nearest-even and a correctly rounded sqrt",
    "x86-64 two's-complement conventions: arithmetic >> on negative values, modular unsigned->signed conversion",
]


def load_known():
    """returns {(property, kind, site): line} for 'finding:' lines, and list of 'fixed:' lines"""
    out = {}
    fixed = []
    if not os.path.exists(KNOWN):
        return out, fixed
    for ln in open(KNOWN):
        ln = ln.strip()
        if not ln or ln.startswith("#"):
            continue
        if ln.startswith("fixed:"):
            fixed.append(ln)
            continue
        if ln.startswith("finding:"):
            d = dict(re.findall(r"(\w+)=((?:\"[^\"]*\")|\S+)", ln))
            d = {k: v.strip('"') for k, v in d.items()}
            out[(d.get("property"), d.get("kind"), d.get("site"))] = d
    return out, fixed


class Verdict:
    def __init__(self, prop, tier, seed):
        self.prop = prop
        self.tier = tier
        self.seed = seed
        self.t0 = time.time()
        self.violations = []      # dict(kind, site, text, replay)
        self.known_hits = []
        self.broken = []          # reasons for exit 2
        self.inconclusive = []
        self.known, self.fixed = load_known()
        self.obligations = 0
        self.discharged = 0
        self.samples = []
        self.cover = {}
        self.notes = []

    # ---- reporting
    def violation(self, kind, site, text, replay=None):
        key = (self.prop, kind, site)
        if key in self.known:
            if not any(k["kind"] == kind and k["site"] == site for k in self.known_hits):
                self.known_hits.append({"kind": kind, "site": site, "text": text})
            return False
        for v in self.violations:
            if v["kind"] == kind and v["site"] == site:
                v["count"] += 1
                return True
        self.violations.append({"kind": kind, "site": site, "text": text, "replay": replay, "count": 1})
        return True

    def oblige(self, ok, n=1):
        self.obligations += n
        if ok:
            self.discharged += n

    def broke(self, why):
        self.broken.append(why)

    def inconc(self, why):
        self.inconclusive.append(why)

    def sample(self, s):
        if len(self.samples) < 12:
            self.samples.append(s)

    # ---- finish
    def write_replay(self, v):
        d = v.get("replay")
        if not d:
            d = {"note": "no concrete input: structural violation", "text": v["text"]}
        d = dict(d)
        d["property"] = self.prop
        d["kind"] = v["kind"]
        d["site"] = v["site"]
        h = hashlib.sha1(("%s|%s|%s" % (self.prop, v["kind"], v["site"])).encode()).hexdigest()[:10]
        os.makedirs(os.path.join(ROOT, "replay"), exist_ok=True)
        path = os.path.join(ROOT, "replay", "%s-%s.json" % (self.prop, h))
        with open(path, "w") as f:
            json.dump(d, f, indent=1, default=str)
        return path

    def finish(self, level, explanation, technique_cmd, extra=None, assumptions=None):
        wall = time.time() - self.t0
        for k in self.known_hits:
            print("KNOWN-FINDING: property=%s kind=%s site=%s %s" % (self.prop, k["kind"], k["site"], k["text"]))
        for v in self.violations:
            path = self.write_replay(v)
            print("VIOLATION property=%s replay=%s" % (self.prop, path))
            print("  %s" % v["text"])
        for w in self.inconclusive:
            print("INCONCLUSIVE property=%s %s" % (self.prop, w))
        for w in self.broken:
            print("ANALYSIS-BROKEN property=%s %s" % (self.prop, w))
        lvl = level
        if level == "proof" and (self.discharged < self.obligations or self.obligations == 0):
            lvl = "other"
        cov = {
            "obligations": self.obligations,
            "discharged": self.discharged,
            "checker_cmd": technique_cmd,
            "trusted_base": TRUSTED_BASE,
            "explanation": explanation,
            "samples": self.samples or [{"note": "no samples recorded"}],
            "known_findings_rederived": [k["kind"] + "@" + k["site"] for k in self.known_hits],
            "programs": self.cover.get("programs", 0),
            "disagreements_checked": self.cover.get("disagreements_checked", 0),
        }
        cov.update(self.cover)
        if extra:
            cov.update(extra)
        ev = {
            "property_id": self.prop,
            "tier": self.tier,
            "seed": self.seed,
            "level": lvl,
            "coverage": cov,
            "assumptions": (assumptions or []) + TRUSTED_BASE,
            "wall_s": round(wall, 3),
            "violations": len(self.violations),
        }
        # runs against a scratch variant of the repository (selftest, seeded changes) must not overwrite the evidence of /repo
        variant = os.environ.get("FX_REPO") not in (None, "", "/repo")
        evdir = os.path.join(ROOT, "evidence-variant" if variant else "evidence")
        os.makedirs(evdir, exist_ok=True)
        with open(os.path.join(evdir, "%s.json" % self.prop), "w") as f:
            json.dump(ev, f, indent=1, default=str)
        print("%s %s: obligations=%d discharged=%d known=%d violations=%d inconclusive=%d broken=%d wall=%.1fs" % (
            self.prop, self.tier, self.obligations, self.discharged, len(self.known_hits), len(self.violations),
            len(self.inconclusive), len(self.broken), wall))
        if self.violations:
            return 1
        if self.inconclusive or self.broken:
            return 2
        return 0


def tier_seed(argv):
    tier = os.environ.get("VERIF_TIER", "quick")
    if "--tier" in argv:
        tier = argv[argv.index("--tier") + 1]
    seed = int(os.environ.get("VERIF_SEED", "0") or 0)
    return tier, seed
