"""C12: asin/acos NaN exactly for |x| > 1; asin odd; acos(x) within 1 ulp of pi/2 - asin(x) (decided).
The backward/forward error bound and monotonicity are not decided."""
from . import common, lib
from .lib import M, FIN, E, sym
from .c09 import const_of
from fxai.interp import Broken
from fxai.state import IntV

ONE = 65536
EXTRA = [
    E("w_pidiv2", [], "fx", "return fixpidiv2.v;"),
    E("w_negasinneg", ["fx"], "fx", "return (-asin(-as_fixed(a))).v;"),
    E("w_acos_diff", ["fx"], "fx", "return acos(as_fixed(a)).v - (fixpidiv2.v - asin(as_fixed(a)).v);"),
    E("w_asin_oddsum", ["fx"], "fx", "return asin(as_fixed(a)).v + asin(-as_fixed(a)).v;"),
]


def run(tier, seed):
    V = common.Verdict("C12", tier, seed)
    configs = ["K17", "K17A", "K20"]
    x = sym(0)
    for cfg in configs:
        try:
            ctx = lib.Ctx(cfg, EXTRA, only={"w_asin", "w_acos", "w_pidiv2", "w_negasinneg", "w_acos_diff", "w_asin_oddsum"})
            for w in ("w_asin", "w_acos"):
                for nm, box, exp in (("x>1", ("i", ONE + 1, M - 1), ("const", M)), ("x<-1", ("i", -(M - 1), -ONE - 1), ("const", M)),
                                     ("|x|<=1", ("i", -ONE, ONE), ("range", -(1 << 20), 1 << 20))):
                    r = ctx.run(w, [box])
                    lib.check_regions(V, r, [(nm, [], exp)],
                                      lambda a, o: o[0] != "ret" or ((abs(o[1]) == M) != (abs(a[0]) > ONE)),
                                      "%s is NaN exactly for |x| > 1" % w[2:], site=w[2:])
                    for a in r.alarms:
                        if a.status == "violation":
                            V.oblige(False)
                            V.violation(a.kind, a.site, "%s in %s(%s) [%s] at %s" % (a.kind, w, a.witness, cfg, a.where), lib.rp(r, a.witness, a.kind))
                        elif a.status == "inconclusive":
                            V.inconc("%s [%s]: %s at %s unresolved" % (w, cfg, a.kind, a.where))
            dom = ("i", -ONE, ONE)
            # both relations are checked inside one program each, so that the two inlined copies of asin (and of the sqrt loop)
            # share their value numbers
            if cfg == "K17A":
                continue        # the abacus loop is summarised with join symbols: the two relations are decided for the std::sqrt builds
            r = ctx.run("w_asin_oddsum", [dom])
            lib.check_regions(V, r, [("|x|<=1", [], ("const", 0))], lambda a, o: o != ("ret", 0), "asin(x) + asin(-x) == 0", site="asin")
            r = ctx.run("w_acos_diff", [dom])
            lib.check_regions(V, r, [("|x|<=1", [], ("range", -1, 1))], lambda a, o: o[0] != "ret" or abs(o[1]) > 1,
                              "acos(x) within 1 ulp of fixpidiv2 - asin(x)", site="acos")
        except Broken as e:
            V.broke("%s: %s" % (cfg, e))
    expl = ("DECIDED: (std::sqrt and abacus builds) asin and acos return the NaN constant on every path with |x.v| > 65536 and a bounded non-NaN "
            "value on |x.v| <= 65536; (std::sqrt builds) asin(x) + asin(-x) == 0 and acos(x) - (fixpidiv2 - asin(x)) in [-1,1] as region checks on single programs (the inlined copies of asin and of "
            "the sqrt loop share value numbers) (acos uses phi/2 = fixpidiv2 - 1). NOT DECIDED: the 2-ulp/4-ulp backward-forward "
            "error bound and monotonicity (numeric; composition with sqrt).")
    return V.finish("other", expl, "./fx check C12 --tier %s" % tier, extra={"configs": configs})
