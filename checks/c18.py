"""C18: shifts scale by powers of two, keep the sign, reject negative counts; & is bitwise and (decided in full)."""
from . import common, lib
from .lib import M, FIN, E, sym, pbox
from fxai.interp import Broken
from fxai.lin import Lin, T, term_args
from fxai.state import IntV

LO, HI = -(M - 1), M - 1


def run(tier, seed):
    V = common.Verdict("C18", tier, seed)
    configs = ["K17", "K20"] if tier == "quick" else ["K17", "K20"]
    x, r_ = sym(0), sym(1)
    for cfg in configs:
        try:
            ctx = lib.Ctx(cfg, [])
            # ---- right shift
            rr = ctx.run("w_shr", [FIN, ("i", -(1 << 31), 63)])
            regs = [("r<0", [(r_, None, -1)], ("const", M))]
            for k in range(64):
                regs.append(("r=%d" % k, [(r_, k, k)], ("diff", 1 << k, x, -((1 << k) - 1), 0)))
            lib.check_regions(V, rr, regs, lambda a, o: o != ("ret", (a[0] >> a[1]) if a[1] >= 0 else M),
                              "x >> r == floor(x / 2^r), NaN for r < 0", site="operator>>")
            # ---- left shift
            rl = ctx.run("w_shl", [FIN, ("i", -(1 << 31), 63)])
            regs = [("r<0", [(r_, None, -1)], ("const", M))]
            for k in range(64):
                P = 1 << k
                lo_in = -((-LO) // P)      # ceil(LO / P)
                hi_in = HI // P
                regs.append(("r=%d in-range" % k, [(r_, k, k), (x, lo_in, hi_in)], ("lin", x.scale(P))))
                if hi_in < HI:
                    regs.append(("r=%d x>max/2^r" % k, [(r_, k, k), (x, hi_in + 1, None)], ("range", 0, M)))
                if lo_in > LO:
                    regs.append(("r=%d x<lowest/2^r" % k, [(r_, k, k), (x, None, lo_in - 1)], ("range", -(1 << 63), 0)))

            def bad_shl(a, o):
                xx, k = a
                if o[0] != "ret":
                    return True
                if k < 0:
                    return o[1] != M
                ex = xx << k
                if LO <= ex <= HI:
                    return o[1] != ex
                return (o[1] < 0 and xx > 0) or (o[1] > 0 and xx < 0)
            lib.check_regions(V, rl, regs, bad_shl, "x << r == x*2^r when representable, else never the opposite sign; NaN for r < 0",
                              site="operator<<")
            # ---- and
            ra = ctx.run("w_and", [FIN, FIN])
            want = None
            ok = len(ra.paths) > 0
            for p in ra.paths:
                r = p.ret
                good = False
                if isinstance(r, IntV):
                    sg = r.lin.single()
                    if sg is not None and sg[1] == 1 and r.lin.cn == 0:
                        ta = term_args(sg[0])
                        ks = sorted([sym(0).key(), sym(1).key()], key=repr)
                        good = ta is not None and ta[0] == "and" and list(ta[2:]) == ks
                V.oblige(good)
                ok = ok and good
            if not ok:
                def bad_and(a, o):
                    return o != ("ret", lib.M and ((a[0] & a[1])))
                import random
                args, out = lib.search(ra, ra.paths[0].state, lambda a, o: o[0] != "ret" or o[1] != (a[0] & a[1]), random.Random(seed))
                if args is not None:
                    V.violation("x & y is the bitwise and", "operator&", "w_and(%s) returns %s" % (args, lib.out_str(out)),
                                {"wrapper": "w_and", "args": list(args), "config": cfg})
                else:
                    V.inconc("w_and: result is not the and-term of the two representations and no counter-example found")
        except Broken as e:
            V.broke("%s: %s" % (cfg, e))
    expl = ("x >> r: for each r in 0..63 (the path is split per shift count) the returned form q satisfies -(2^r-1) <= q*2^r - x <= 0, "
            "i.e. q == floor(x/2^r); r < 0 returns the NaN constant. x << r: for each r, on the sub-box where x*2^r is in [lowest,max] the "
            "returned form is 2^r*x; on the complement the result interval has the sign of x (or 0); r < 0 returns NaN; no shift-exponent "
            "trap is reachable for r <= 63. x & y: the returned value is the value-numbered term and(x,y).")
    return V.finish("proof", expl, "./fx check C18 --tier %s" % tier, extra={"configs": configs})
