#!/usr/bin/env python3
"""Engine self-check (not a property check): for every wrapper, concrete evaluation of the IR on many inputs must be covered by
the abstract path summaries: some path whose parameter box contains the input must have a result range containing the concrete
result (and, when its form only mentions parameters, evaluate to exactly that result). A miss is an unsoundness of fxai."""
import os
import sys
import random
import multiprocessing as mp
sys.path.insert(0, os.path.dirname(os.path.dirname(os.path.abspath(__file__))))
sys.setrecursionlimit(20000)
from fxai import runner, pipeline as P
from fxai.interp import Broken
from fxai.state import IntV, BoolV, FpV, Infeasible
from fxai.conc import Conc
from fxai.witness import candidates
from fractions import Fraction

_G = {}


def covers(p, args, out, fn):
    st = p.state
    for k, (pn, ty) in enumerate(fn.params):
        if ty.kind == "int":
            lo, hi = st.bounds["p%d" % k]
            if not (lo <= args[k] <= hi):
                return False
        else:
            lo, hi, nan = st.fb["f%d" % k]
            v = args[k]
            if ty.kind == "float":
                from fxai.conc import f32
                v = f32(v)
            if v != v:
                if not nan:
                    return False
            elif not (lo <= v <= hi):
                return False
    r = p.ret
    if out[0] != "ret":
        return False
    val = out[1]
    if isinstance(r, IntV):
        try:
            lo, hi = st.rng(r)
        except Infeasible:
            return False
        if not (lo <= val <= hi):
            return False
        def symval(s):
            """exact value of a symbol at the concrete arguments: parameters, and isqrt summaries of parameter-only forms"""
            if isinstance(s, str) and s[0] == "p" and s[1:].isdigit():
                return Fraction(args[int(s[1:])])
            from fxai.lin import term_args
            ta = term_args(s) if isinstance(s, str) else None
            if ta is not None and ta[0] == "isqrt":
                cn, d, items = ta[1]
                v = Fraction(cn, d)
                for s2, c2 in items:
                    sv = symval(s2)
                    if sv is None:
                        return None
                    v += Fraction(c2, d) * sv
                if v.denominator != 1 or v < 0:
                    return None
                import math
                return Fraction(math.isqrt(int(v)))
            return None
        vals = {s: symval(s) for s in r.lin.t}
        if all(v is not None for v in vals.values()):
            ex = Fraction(r.lin.cn, r.lin.d)
            for s, c in r.lin.t.items():
                ex += Fraction(c, r.lin.d) * vals[s]
            return ex == val
        return True
    if isinstance(r, BoolV):
        return r.tv is None or int(r.tv) == (val & 1)
    if isinstance(r, FpV):
        if val != val:
            return r.nan
        return r.lo <= val <= r.hi
    return True


def work(name):
    b = _G["b"]
    rnd = random.Random(hash(name) & 0xffff)
    try:
        res, alarms, stats, an = runner.analyze_entry(b, name, rnd=rnd, refine_depth=0, want_paths=True,
                                                      opts={"summaries": bool(os.environ.get("SOUND_SUMMARIES"))})
    except (Broken, Infeasible) as e:
        return name, 0, ["broken: %s" % e]
    cx = Conc(an)
    misses = []
    n = 0
    init = P.init_state(an.fn, runner.default_boxes(b.entries[name]))
    seen = set()
    pools = [init] + [p.state for p in res.paths[:40]]
    for st in pools:
        for args in candidates(an, st, rnd, 60):
            if args in seen:
                continue
            seen.add(args)
            out = cx.run(args)
            n += 1
            if out[0] != "ret":
                continue            # traps/poison are alarms, checked by C07
            if not any(covers(p, args, out, an.fn) for p in res.paths):
                misses.append("%s%r -> %r not covered by any of %d paths" % (name, args, out[1], len(res.paths)))
                if len(misses) > 3:
                    return name, n, misses
            if n > 600:
                break
        if n > 600:
            break
    return name, n, misses


def main():
    cfg = sys.argv[1] if len(sys.argv) > 1 else "K17"
    b = runner.build(cfg)
    _G["b"] = b
    names = sorted(n for n in b.entries if n.startswith("w_"))
    if len(sys.argv) > 2:
        names = [n for n in names if any(n.startswith(x) for x in sys.argv[2:])]
    tot = 0
    bad = 0
    with mp.get_context("fork").Pool(8) as pool:
        for name, n, misses in pool.imap_unordered(work, names, chunksize=2):
            tot += n
            for m in misses:
                bad += 1
                print("UNSOUND? " + m[:300])
    print("soundcheck %s: %d wrappers, %d concrete evaluations, %d not covered" % (cfg, len(names), tot, bad))
    return 1 if bad else 0


if __name__ == "__main__":
    sys.exit(main())
