"""Concrete evaluation of the analysed IR on one input.

Used only to confirm alarms (turn a may-alarm into a definite violation with a
witness) and to confirm disagreements; a pass is never based on it.
"""
import math
import struct
from fractions import Fraction
from . import ir as IR
from .interp import UBSAN_KIND, Broken

INF = float("inf")


def sx(v, w):
    v &= (1 << w) - 1
    if v >> (w - 1):
        v -= 1 << w
    return v


def f32(x):
    try:
        return struct.unpack("<f", struct.pack("<f", x))[0]
    except OverflowError:
        return INF if x > 0 else -INF


def _g(f):
    def h(*a):
        if any(x != x for x in a):
            return float("nan")
        return f(*a)
    return h


_LIBM = {"sin": _g(math.sin), "cos": _g(math.cos), "tan": _g(math.tan), "atan": _g(math.atan), "atan2": _g(math.atan2),
         "asin": _g(math.asin), "acos": _g(math.acos), "hypot": _g(math.hypot), "floor": _g(lambda x: float(math.floor(x)) if not math.isinf(x) else x),
         "ceil": _g(lambda x: float(math.ceil(x)) if not math.isinf(x) else x), "fabs": _g(abs), "exp": _g(math.exp), "log": _g(math.log),
         "pow": _g(math.pow), "fmod": _g(math.fmod), "trunc": _g(lambda x: float(math.trunc(x)) if not math.isinf(x) else x),
         "sinf": _g(math.sin), "cosf": _g(math.cos), "tanf": _g(math.tan), "atanf": _g(math.atan), "atan2f": _g(math.atan2),
         "hypotf": _g(math.hypot), "sqrtf": _g(lambda x: math.sqrt(x) if x >= 0 else float("nan")), "fabsf": _g(abs)}


class Trap(Exception):
    def __init__(self, kind, inst):
        self.kind = kind
        self.inst = inst


class Conc:
    def __init__(self, an, fuse=False, max_steps=200000):
        self.an = an
        self.mod = an.mod
        self.fn = an.fn
        self.fuse = fuse
        self.max_steps = max_steps
        self.uwraps = None        # when a set: IR lines of add/mul/shl whose unsigned result did not fit

    def run(self, args):
        """returns ('ret', value) | ('trap', kind, inst) | ('oob', inst) | ('poison', what, inst)"""
        env = {}
        for (pn, ty), a in zip(self.fn.params, args):
            if ty.kind == "int":
                env[pn] = sx(a, ty.bits) if ty.bits > 1 else (a & 1)
            elif ty.kind == "float":
                env[pn] = f32(a)
            else:
                env[pn] = float(a)
        blk = self.fn.order[0]
        prev = None
        steps = 0
        try:
            while True:
                b = self.fn.blocks[blk]
                upd = {}
                pc = 0
                insts = b.insts
                while insts[pc].op == "phi":
                    i = insts[pc]
                    for v, lab in i.ops:
                        if lab == prev:
                            upd[i.res] = self.val(env, v)
                            break
                    else:
                        raise Broken("phi")
                    pc += 1
                env.update(upd)
                nxt = None
                while pc < len(insts):
                    i = insts[pc]
                    steps += 1
                    if steps > self.max_steps:
                        return ("steps",)
                    r = self.exec(env, i)
                    if r is not None:
                        if r[0] == "goto":
                            nxt = r[1]
                            break
                        return r
                    pc += 1
                prev, blk = blk, nxt
        except Trap as t:
            return ("trap", t.kind, t.inst)

    def val(self, env, o):
        k = o.kind
        if k == "reg":
            return env[o.val]
        ty = IR.resolve(o.ty, self.mod) if o.ty.kind == "named" else o.ty
        if k == "int":
            return sx(o.val, ty.bits) if ty.bits > 1 else (o.val & 1)
        if k == "fp":
            if isinstance(o.val, tuple):
                fr = o.val[1]
                return ("fp80", fr)
            return o.val
        if k == "global":
            return ("ptr", o.val, 0)
        if k == "gepconst":
            bty, base, idx = o.val
            return self.gep(self.val(env, base), bty, [self.val(env, x) for x in idx])
        if k in ("bitcast", "p2iconst"):
            return self.val(env, o.val)
        if k == "null":
            return ("ptr", None, 0)
        raise Broken("operand")

    def gep(self, p, bty, idx):
        off = p[2]
        ty = bty
        first = True
        for i in idx:
            if first:
                off += i * IR.sizeof(ty, self.mod)
                first = False
                continue
            rty = IR.resolve(ty, self.mod)
            if rty.kind == "array":
                off += i * IR.sizeof(rty.elem, self.mod)
                ty = rty.elem
            elif rty.kind == "struct":
                off += IR.field_offset(rty, i, self.mod)
                ty = rty.fields[i]
            else:
                raise Broken("gep")
        return ("ptr", p[1], off)

    def exec(self, env, i):
        op = i.op
        if op == "br":
            return ("goto", i.ops[0])
        if op == "condbr":
            c = self.val(env, i.ops[0])
            return ("goto", i.ops[1] if c & 1 else i.ops[2])
        if op == "switch":
            c = self.val(env, i.ops[0])
            for cv, lab in i.ops[2]:
                if sx(cv, i.ty.bits) == c:
                    return ("goto", lab)
            return ("goto", i.ops[1])
        if op == "ret":
            return ("ret", self.val(env, i.ops[0]) if i.ops else None)
        if op == "unreachable":
            return ("unreachable", i)
        if op in ("add", "sub", "mul", "shl", "ashr", "lshr", "and", "or", "xor", "sdiv", "srem", "udiv", "urem"):
            a = self.val(env, i.ops[0])
            b = self.val(env, i.ops[1])
            w = i.ty.bits
            if isinstance(a, tuple) or isinstance(b, tuple):
                # ptrtoint arithmetic
                if op == "sub" and a[1] == b[1]:
                    env[i.res] = a[2] - b[2]
                    return
                raise Broken("pointer arithmetic")
            if w == 1:
                a &= 1
                b &= 1
                if op == "and":
                    env[i.res] = a & b
                elif op == "or":
                    env[i.res] = a | b
                elif op == "xor":
                    env[i.res] = a ^ b
                else:
                    raise Broken("i1 arithmetic")
                return
            mask = (1 << w) - 1
            ua, ub = a & mask, b & mask
            if self.uwraps is not None and op in ("add", "mul", "shl"):
                ur = ua + ub if op == "add" else (ua * ub if op == "mul" else (ua << ub if ub < w else 0))
                if ur >> w:
                    self.uwraps.add(i.line)
            if op == "add":
                r = a + b
                if "nsw" in i.attrs and sx(r, w) != r:
                    return ("poison", "nsw", i)
            elif op == "sub":
                r = a - b
                if "nsw" in i.attrs and sx(r, w) != r:
                    return ("poison", "nsw", i)
            elif op == "mul":
                r = a * b
                if "nsw" in i.attrs and sx(r, w) != r:
                    return ("poison", "nsw", i)
            elif op == "shl":
                if ub >= w:
                    return ("poison", "shift", i)
                r = ua << ub
            elif op == "ashr":
                if ub >= w:
                    return ("poison", "shift", i)
                r = a >> ub
            elif op == "lshr":
                if ub >= w:
                    return ("poison", "shift", i)
                r = ua >> ub
            elif op == "and":
                r = ua & ub
            elif op == "or":
                r = ua | ub
            elif op == "xor":
                r = ua ^ ub
            elif op in ("sdiv", "srem"):
                if b == 0:
                    return ("trap", "divide-by-zero(hw)", i)
                if a == -(1 << (w - 1)) and b == -1:
                    return ("trap", "INT_MIN/-1(hw)", i)
                q = abs(a) // abs(b)
                if (a < 0) != (b < 0):
                    q = -q
                r = q if op == "sdiv" else a - q * b
            else:
                if ub == 0:
                    return ("trap", "divide-by-zero(hw)", i)
                r = ua // ub if op == "udiv" else ua % ub
            env[i.res] = sx(r, w)
            return
        if op == "icmp":
            p = next(iter(i.attrs))
            a = self.val(env, i.ops[0])
            b = self.val(env, i.ops[1])
            if isinstance(a, tuple):
                if a[1] != b[1]:
                    raise Broken("pointer compare")
                a, b = a[2], b[2]
                w = 64
            else:
                w = i.ty.bits
            if p[0] == "u":
                mask = (1 << w) - 1
                a &= mask
                b &= mask
                p = "s" + p[1:]
            r = {"eq": a == b, "ne": a != b, "slt": a < b, "sle": a <= b, "sgt": a > b, "sge": a >= b}[p]
            env[i.res] = int(r)
            return
        if op == "fcmp":
            p = next(iter(i.attrs))
            a = self.val(env, i.ops[0])
            b = self.val(env, i.ops[1])
            un = (a != a) or (b != b)
            if p == "ord":
                r = not un
            elif p == "uno":
                r = un
            elif p == "true":
                r = True
            elif p == "false":
                r = False
            else:
                rel = p[1:]
                if un:
                    r = p[0] == "u"
                else:
                    r = {"lt": a < b, "le": a <= b, "gt": a > b, "ge": a >= b, "eq": a == b, "ne": a != b}[rel]
            env[i.res] = int(r)
            return
        if op == "select":
            c = self.val(env, i.ops[0])
            env[i.res] = self.val(env, i.ops[1] if c & 1 else i.ops[2])
            return
        if op in ("sext",):
            a = self.val(env, i.ops[0])
            sty = i.ops[0].ty
            if sty.bits == 1:
                a = -(a & 1)
            env[i.res] = a
            return
        if op == "zext":
            a = self.val(env, i.ops[0])
            sty = i.ops[0].ty
            env[i.res] = a & ((1 << sty.bits) - 1)
            return
        if op == "trunc":
            a = self.val(env, i.ops[0])
            w = i.ty.bits
            env[i.res] = (a & 1) if w == 1 else sx(a, w)
            return
        if op == "ptrtoint":
            env[i.res] = self.val(env, i.ops[0])
            return
        if op == "bitcast":
            env[i.res] = self.val(env, i.ops[0])
            return
        if op == "getelementptr":
            env[i.res] = self.gep(self.val(env, i.ops[0]), i.ty, [self.val(env, o) for o in i.ops[1:]])
            return
        if op == "load":
            p = self.val(env, i.ops[0])
            ent_ = self.mod.globals.get(p[1])
            if ent_ is not None and ent_[1] is None and ent_[2] and ("private" in ent_[3] or "internal" in ent_[3]):
                env[i.res] = 0          # undef-initialised private constant (padding of an empty closure): any value will do
                return
            esz, ebits, vals, gsz = self.an.flat_global(p[1])
            off = p[2]
            if off < 0 or off > gsz - esz or off % esz:
                return ("oob", i, off)
            env[i.res] = sx(vals[off // esz], ebits)
            return
        if op == "extractvalue":
            env[i.res] = self.val(env, i.ops[0])[i.ops[1]]
            return
        if op == "sitofp":
            a = self.val(env, i.ops[0])
            env[i.res] = float(a) if i.ty.kind == "double" else f32(float(a))
            return
        if op == "uitofp":
            a = self.val(env, i.ops[0]) & ((1 << i.ops[0].ty.bits) - 1)
            env[i.res] = float(a) if i.ty.kind == "double" else f32(float(a))
            return
        if op == "fpext":
            v = self.val(env, i.ops[0])
            env[i.res] = v
            return
        if op == "fptrunc":
            a = self.val(env, i.ops[0])
            if isinstance(a, tuple):
                fr = a[1]
                a = fr.numerator / fr.denominator
            if i.ty.kind == "double" and i.ops[0].ty.kind == "x86_fp80":
                env[i.res] = a
                return
            env[i.res] = f32(a) if i.ty.kind == "float" else a
            return
        if op == "fptosi":
            a = self.val(env, i.ops[0])
            w = i.ty.bits
            if a != a or math.isinf(a) or not (-(1 << (w - 1)) <= math.trunc(a) <= (1 << (w - 1)) - 1):
                return ("poison", "fptosi", i)
            env[i.res] = math.trunc(a)
            return
        if op in ("fadd", "fsub", "fmul", "fdiv"):
            a = self.val(env, i.ops[0])
            b = self.val(env, i.ops[1])
            try:
                if op == "fadd":
                    r = a + b
                elif op == "fsub":
                    r = a - b
                elif op == "fmul":
                    r = a * b
                else:
                    if b == 0:
                        r = float("nan") if (a == 0 or a != a) else math.copysign(INF, a) * math.copysign(1.0, b)
                    else:
                        r = a / b
            except OverflowError:
                r = INF
            env[i.res] = f32(r) if i.ty.kind == "float" else r
            return
        if op == "fneg":
            env[i.res] = -self.val(env, i.ops[0])
            return
        if op == "call":
            return self.call(env, i)
        raise Broken("conc: unsupported %s" % i.text)

    def call(self, env, i):
        name = i.ops[0]
        args = i.ops[1:]
        if name == "llvm.ubsantrap":
            raise Trap(UBSAN_KIND.get(args[0].val, "ubsan"), i)
        if name.startswith("llvm.expect."):
            env[i.res] = self.val(env, args[0])
            return
        if name.startswith("llvm.lifetime.") or name.startswith("llvm.dbg.") or name.startswith("llvm.assume"):
            return
        for pre, kind in (("llvm.sadd.with.overflow.", "add"), ("llvm.ssub.with.overflow.", "sub"),
                          ("llvm.smul.with.overflow.", "mul")):
            if name.startswith(pre):
                a = self.val(env, args[0])
                b = self.val(env, args[1])
                w = args[0].ty.bits
                r = a + b if kind == "add" else (a - b if kind == "sub" else a * b)
                env[i.res] = (sx(r, w), int(sx(r, w) != r))
                return
        if name.startswith("llvm.ctlz."):
            a = self.val(env, args[0])
            w = args[0].ty.bits
            a &= (1 << w) - 1
            if a == 0 and args[1].val:
                return ("poison", "ctlz0", i)
            env[i.res] = w - a.bit_length()
            return
        if name.startswith("llvm.cttz."):
            a = self.val(env, args[0])
            w = args[0].ty.bits
            a &= (1 << w) - 1
            if a == 0:
                if args[1].val:
                    return ("poison", "cttz0", i)
                env[i.res] = w
            else:
                env[i.res] = (a & -a).bit_length() - 1
            return
        if name.startswith("llvm.is.constant."):
            env[i.res] = 0
            return
        if name.startswith("llvm.fmuladd."):
            a = self.val(env, args[0])
            b = self.val(env, args[1])
            c = self.val(env, args[2])
            kind = i.ty.kind
            if self.fuse and not any(math.isinf(x) or x != x for x in (a, b, c)):
                fr = Fraction(a) * Fraction(b) + Fraction(c)
                r = fr.numerator / fr.denominator
            else:
                try:
                    p = a * b
                    if kind == "float":
                        p = f32(p)
                    r = p + c
                except OverflowError:
                    r = INF
            env[i.res] = f32(r) if kind == "float" else r
            return
        if name in ("sqrt", "llvm.sqrt.f64"):
            a = self.val(env, args[0])
            env[i.res] = math.sqrt(a) if a >= 0 else float("nan")
            return
        if name.startswith("llvm.fabs."):
            env[i.res] = abs(self.val(env, args[0]))
            return
        if name in ("llround", "lround", "llroundf", "lroundf"):
            x = self.val(env, args[0])
            w = i.ty.bits
            if x != x or math.isinf(x):
                env[i.res] = -(1 << (w - 1))        # unspecified by the standard; glibc returns the minimum
                return
            from fractions import Fraction
            f = Fraction(x)
            n = (abs(f) + Fraction(1, 2)).__floor__()
            n = n if f >= 0 else -n
            if not (-(1 << (w - 1)) <= n < (1 << (w - 1))):
                n = -(1 << (w - 1))
            env[i.res] = n
            return
        if name in _LIBM:
            xs = [self.val(env, a) for a in args]
            try:
                r = _LIBM[name](*xs)
            except (ValueError, OverflowError):
                r = float("nan")
            env[i.res] = f32(r) if i.ty.kind == "float" else r
            return
        raise Broken("conc: call @%s" % name)
