#!/bin/bash
# seed_ingest.sh <src-dir with patch.diff demo.cc notes.md> <seed-id> <property> -- confirms a seeded change in a scratch copy and stores it
# usage: seed_ingest.sh /tmp/wt/C07-work/m1 C07-m1 C07 "<demo build flags>"
set -e
SRC=$1; ID=$2; PROP=$3; FLAGS=${4:--std=c++17}
S=$(mktemp -d /tmp/fxseed-XXXXXX)
trap "rm -rf $S" EXIT
rsync -a --exclude _build --exclude .git /repo/ $S/repo/
mkdir -p $S/out
build_demo() { # $1 = repo dir, $2 = out exe
  c++ $FLAGS -I$1/fixed_lib/include $SRC/demo.cc $1/fixed_lib/src/fixed_math.cc -o $2 2>$S/out/build.log; }
echo "== baseline demo"; build_demo $S/repo $S/out/d0 && (cd $S/out && timeout 60 ./d0; echo "exit=$?") | tail -3
(cd $S/repo && patch -p1 -s < $SRC/patch.diff)
echo "== tests with change"; FX_REPO=$S/repo /verif/tools/qtest.sh type_traits integral_type_convertions floating_point_type_convertions fixed_construction addition substraction multiplication division sqrt misc_functions sin tan atan 2>&1 | sort | uniq -c | awk '{print $2}' | sort | uniq -c
c++ -std=c++17 -I$S/repo/fixed_lib/include -c $S/repo/fixed_lib/src/fixed_math.cc -o $S/out/fm.o && echo "fixed_math.cc compiles"
echo "== demo with change"; build_demo $S/repo $S/out/d1 && (cd $S/out && timeout 60 ./d1; echo "exit=$?") | tail -3
mkdir -p /verif/seeded/$ID
cp $SRC/patch.diff $SRC/demo.cc /verif/seeded/$ID/
[ -f $SRC/notes.md ] && cp $SRC/notes.md /verif/seeded/$ID/notes.md
echo "stored /verif/seeded/$ID"
