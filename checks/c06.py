"""C06: ordering, NaN sentinel, negation and abs follow the value model (decided in full)."""
from . import common, lib
from .lib import M, FIN, ANYFX, E, sym
from fxai.interp import Broken
from fxai.lin import Lin

V_ = "as_fixed(a)"
EXTRA = [
    E("w_id", ["fx"], "fx", "return as_fixed(a).v;"),
    E("w_negneg", ["fx"], "fx", "return (-(-as_fixed(a))).v;"),
    E("w_abs_neg", ["fx"], "fx", "return abs(-as_fixed(a)).v;"),
]

CMP = {"eq": lambda a, b: a == b, "ne": lambda a, b: a != b, "lt": lambda a, b: a < b, "le": lambda a, b: a <= b,
       "gt": lambda a, b: a > b, "ge": lambda a, b: a >= b}


def cmp_truth(nm):
    d = sym(0).sub(sym(1))

    def f(st):
        lo, hi = st.rng_lin_int(d)
        if nm == "eq":
            return True if lo == hi == 0 else (False if lo > 0 or hi < 0 else None)
        if nm == "ne":
            return False if lo == hi == 0 else (True if lo > 0 or hi < 0 else None)
        if nm == "lt":
            return True if hi < 0 else (False if lo >= 0 else None)
        if nm == "le":
            return True if hi <= 0 else (False if lo > 0 else None)
        if nm == "gt":
            return True if lo > 0 else (False if hi <= 0 else None)
        if nm == "ge":
            return True if lo >= 0 else (False if hi < 0 else None)
    return f


def isnan_truth(st):
    lo, hi = st.rng_lin_int(sym(0))
    if lo == hi and abs(lo) == M:
        return True
    if lo > -M and hi < M:
        return False
    return None


def run(tier, seed):
    V = common.Verdict("C06", tier, seed)
    configs = ["K17", "K20"] if tier == "quick" else ["K17", "K20"]
    for cfg in configs:
        try:
            ctx = lib.Ctx(cfg, EXTRA)
        except Broken as e:
            V.broke(str(e))
            continue
        try:
            # comparisons: raw order of the representations == order of the real values with NaN above / -NaN below
            for nm, f in CMP.items():
                r = ctx.run("w_cmp_" + nm, [ANYFX, ANYFX])
                lib.check_bool(V, r, cmp_truth(nm), lambda args, out, f=f: out[0] != "ret" or bool(out[1]) != f(args[0], args[1]),
                               "operator %s orders by value" % nm, site="operator-" + nm)
            # the sentinels
            for w, val in (("w_lim_quiet_NaN", M), ("w_lim_max", M - 1), ("w_lim_lowest", -(M - 1))):
                r = ctx.run(w, [])
                lib.check_regions(V, r, [("all", [], ("const", val))], lambda args, out, val=val: out != ("ret", val),
                                  "%s == %d" % (w[6:], val), site="numeric_limits")
            # isnan true exactly for +-NaN
            r = ctx.run("w_isnan", [ANYFX])
            lib.check_bool(V, r, isnan_truth, lambda args, out: out[0] != "ret" or bool(out[1]) != (abs(args[0]) == M),
                           "isnan true exactly for the two sentinels", site="isnan")
            # unary minus exact on [-NaN, NaN], finite -> finite
            r = ctx.run("w_neg", [ANYFX])
            lib.check_regions(V, r, [("all", [], ("lin", sym(0).neg()))], lambda args, out: out != ("ret", -args[0]),
                              "-x exact", site="operator-")
            for a in r.alarms:
                if a.status == "violation":
                    V.violation(a.kind, a.site, "%s in w_neg(%s) at %s" % (a.kind, a.witness, a.where),
                                {"wrapper": "w_neg", "args": list(a.witness), "config": cfg})
            # abs
            r = ctx.run("w_abs", [ANYFX])
            lib.check_regions(V, r, [("x>0", [(sym(0), 1, None)], ("lin", sym(0))),
                                     ("x<=0", [(sym(0), None, 0)], ("lin", sym(0).neg())),
                                     ("nonneg", [], ("range", 0, M))],
                              lambda args, out: out != ("ret", abs(args[0])), "abs(x) == |x| >= 0", site="abs")
            lib.check_equiv(V, ctx.run("w_abs_neg", [ANYFX]), r, "abs(-x) == abs(x)", site="abs")
            lib.check_equiv(V, ctx.run("w_negneg", [ANYFX]), ctx.run("w_id", [ANYFX]), "-(-x) == x", site="operator-")
        except Broken as e:
            V.broke("%s: %s" % (cfg, e))
    expl = ("Comparison wrappers return a predicate; for every path the predicate (or its decided value) is refined both ways and must "
            "agree with the order of the raw representations, which is the order of the real values with +NaN (= INT64_MAX) above and "
            "-NaN below every finite value; quiet_NaN/max/lowest are read off constant-returning wrappers. isnan is shown true exactly "
            "on {+M,-M}. Unary minus returns the form -x on [-M,M] without a reachable negate-overflow trap, abs returns x or -x by sign "
            "and is non-negative; abs(-x)==abs(x) and -(-x)==x by summary equivalence.")
    return V.finish("proof", expl, "./fx check C06 --tier %s" % tier, extra={"configs": configs})
