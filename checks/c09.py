"""C09: sin and cos: exact periodicity, accuracy 4 ulp + r^9/9! and |result| <= 1, all decided."""
from . import common, lib, reduce
from .lib import M, E, sym
from fxai.interp import Broken

T46 = (1 << 62) - 1      # |x| < 2^46 as a value is |raw| < 2^62
DOM = ("i", -T46, T46)
EXTRA = [
    E("w_phi", [], "fx", "return phi.v;"),
    E("w_pidiv2", [], "fx", "return fixpidiv2.v;"),
    E("w_sin_off", ["fx"], "fx", "return sin(as_fixed(a + fixpidiv2.v)).v;"),
]


def const_of(ctx, w):
    r = ctx.run(w, [])
    vals = set(lib.ret_rng(p) for p in r.paths)
    if len(vals) != 1:
        raise Broken("%s is not a constant" % w)
    lo, hi = vals.pop()
    if lo != hi:
        raise Broken("%s is not a constant" % w)
    return lo


def run(tier, seed):
    V = common.Verdict("C09", tier, seed)
    configs = ["K17", "K20"] if tier == "quick" else ["K17", "K20"]
    info = {}
    for cfg in configs:
        try:
            ctx = lib.Ctx(cfg, EXTRA)
            phi = const_of(ctx, "w_phi")
            m = 2 * phi
            r = ctx.run("w_sin", [DOM])
            if len(r.paths) < 4:
                V.broke("w_sin: only %d paths" % len(r.paths))
            w = reduce.check_reduction(V, r, m, "|x| < 2^46 (raw below 2^62)", "sin(x + k*2*phi) == sin(x)", "sin")
            info[cfg] = {"phi": phi, "period": m, "window": list(w), "paths": len(r.paths)}
            for a in r.alarms:
                if a.status == "violation":
                    V.oblige(False)
                    V.violation(a.kind, a.site, "%s in w_sin(%s) at %s" % (a.kind, a.witness, a.where), lib.rp(r, a.witness, a.kind))
                elif a.status == "inconclusive":
                    V.inconc("w_sin: %s at %s unresolved" % (a.kind, a.where))
            # cos(x) is sin(x + pi/2) with an exact offset on the domain, hence periodic with the same period
            rc = ctx.run("w_cos", [DOM])
            ro = ctx.run("w_sin_off", [DOM])
            lib.check_equiv(V, rc, ro, "cos(x) == sin(x + fixpidiv2)", site="cos")
            if cfg == configs[0] or tier != "quick":
                accuracy(V, ctx, phi, cfg)
        except Broken as e:
            V.broke("%s: %s" % (cfg, e))
    expl = ("Exact periodicity: on every path of sin over |raw| < 2^62 an intermediate value r of that path is exhibited with "
            "(1) r congruent to x modulo 2*phi.v (remainder symbols replaced by the forms they reduce), (2) all r inside one window of "
            "at most 2*phi.v integers, (3) the path's returned form identical to the form returned by abstract re-execution of sin on the "
            "argument r. Hence sin(x) = G(x mod 2phi) and sin(x + k*2phi) == sin(x) bit for bit; cos equals sin(x + fixpidiv2) by summary "
            "equivalence. Accuracy and range: the fast window is cut into cells of 64 arguments; on each cell and path the idealised real "
            "expression of the returned form (floors and truncations replaced by their mid value, their half range accumulated as a rounding "
            "budget E) is evaluated by interval automatic differentiation: actual(x) lies in v(x0) + D*(x-x0) +- E; against the interval "
            "oracle for sin and cos this gives |actual - 65536 sin x| <= |v(x0)-f(x0)| + max|D - cos|*|x-x0| + E, which is compared with "
            "4 + 65536*r^9/9! (r minimised over the cell) minus a slack of |2phi - 2pi| + |fixpidiv2 - pi/2| raw units that carries the "
            "statement to all |x| <= 2pi through the period and to cos through its offset; the same enclosure shows |result| <= 65536. "
            "Every clause of C09 is decided.")
    return V.finish("proof", expl, "./fx check C09 --tier %s" % tier, extra={"configs": configs, "reduction": info})


# ------------------------------------------------------------------ accuracy and range, cell by cell
def accuracy(V, ctx, phi, cfg, width=64):
    """|sin_lib(x) - sin x| <= 4 ulp + r^9/9! and |result| <= 1 on the fast window W, with enough slack (1.2 raw units) to carry the
    statement to |x| <= 2*pi through the exact periodicity (2*phi differs from 2*pi by < 0.84 raw) and to cos (fixpidiv2 differs
    from pi/2 by < 0.32 raw)."""
    from fractions import Fraction
    from . import fxnum, realmath as R
    m = 2 * phi
    pil, pih = R.to_frac(R.pi())
    d2pi = max(abs(65536 * 2 * pil - m), abs(65536 * 2 * pih - m))
    r0 = ctx.run("w_pidiv2", [])
    pd2 = lib.ret_rng(r0.paths[0])[0]
    dpd2 = max(abs(65536 * pil / 2 - pd2), abs(65536 * pih / 2 - pd2))
    slack = d2pi + dpd2
    V.oblige(slack < Fraction(13, 10))
    if not slack < Fraction(13, 10):
        V.violation("pi constants", "phi", "2*phi and fixpidiv2 are %.3f raw units away from 2*pi and pi/2: the period/offset error alone "
                    "exceeds the accuracy budget" % float(slack))
        return
    # fast window = union of the boxes of the paths whose reduced argument is the parameter itself
    r = ctx.run("w_sin", [("i", -(phi // 2), phi + phi // 2)])
    fact9 = 362880
    ncell = 0
    worst = None
    fails = []
    for p in r.paths:
        lo, hi = p.state.bounds["p0"]
        a = lo
        while a <= hi:
            b = min(hi, a + width - 1)
            try:
                x0, v0, D, E = fxnum.cell_bound(p.ret, a, b)
            except fxnum.Unsupported as e:
                V.inconc("w_sin [%s]: idealised expression not available on path %s: %s" % (cfg, lib.describe_path(p)["box"], e))
                break
            (sl, sh), (cl_, ch) = R.sin_cos_f(Fraction(a, 65536), Fraction(b, 65536))
            (s0l, s0h), _ = R.sin_cos_f(Fraction(x0, 65536), Fraction(x0, 65536))
            f0 = (65536 * s0l, 65536 * s0h)
            dmax = max(abs(D[0] - ch), abs(D[1] - cl_), abs(D[0] - cl_), abs(D[1] - ch))
            dx = max(x0 - a, b - x0)
            err = max(abs(v0 - f0[0]), abs(v0 - f0[1])) + dmax * dx + E
            # r: distance of x/65536 from the nearest multiple of pi, minimum over the cell, reduced by the slack
            def dist(xr):
                xv = Fraction(xr, 65536)
                k = round(float(xv) / 3.141592653589793)
                return min(abs(xv - k * pil), abs(xv - k * pih))
            inside = any(Fraction(a, 65536) <= k * pil <= Fraction(b, 65536) or Fraction(a, 65536) <= k * pih <= Fraction(b, 65536)
                         for k in (-1, 0, 1, 2))
            rmin = Fraction(0) if inside else min(dist(a), dist(b))
            rmin = max(Fraction(0), rmin - slack / 65536)
            bound = 4 + 65536 * rmin ** 9 / fact9
            ok = err + slack <= bound
            # range: |result| <= 1
            up = v0 + max(D[1] * (b - x0), D[0] * (a - x0), 0) + E
            dn = v0 + min(D[0] * (b - x0), D[1] * (a - x0), 0) - E
            okr = up <= 65536 and dn >= -65536
            V.oblige(ok)
            V.oblige(okr)
            ncell += 1
            mg = bound - err - slack
            if worst is None or mg < worst[0]:
                worst = (mg, a, b, float(err), float(bound))
            if not (ok and okr):
                fails.append((a, b, p, float(err), float(bound), float(up), float(dn)))
            a = b + 1
    info = {"cells": ncell, "cell_width": width, "slack_raw_units": float(slack), "tightest_margin": None if worst is None else float(worst[0]),
            "tightest_cell": None if worst is None else [worst[1], worst[2], worst[3], worst[4]]}
    V.cover.setdefault("accuracy", {})[cfg] = info
    if ncell < 3000:
        V.broke("w_sin [%s]: only %d accuracy cells" % (cfg, ncell))
    # failing cells: is some point a definite violation (one-sided rule), else undecided
    for a, b, p, err, bound, up, dn in fails[:20]:
        hit = None
        for x in range(a, b + 1):
            out = r.conc((x,))
            if out[0] != "ret":
                hit = (x, out)
                break
            s, _ = R.sin_cos(R.iv(Fraction(x, 65536)))
            tl, th = R.to_frac(s)
            xv = Fraction(x, 65536)
            k = round(float(xv) / 3.141592653589793)
            rr = min(abs(xv - k * pil), abs(xv - k * pih))
            bd = 4 + 65536 * rr ** 9 / fact9
            if out[1] < 65536 * tl - bd or out[1] > 65536 * th + bd or abs(out[1]) > 65536:
                hit = (x, out)
                break
        if hit:
            V.violation("sin accuracy 4 ulp + r^9/9! and |result| <= 1", "sin", "sin(%d) [%s] = %s: outside the allowed error (cell [%d,%d]: proved error "
                        "bound %.2f, allowed %.2f raw units)" % (hit[0], cfg, lib.out_str(hit[1]), a, b, err, bound), lib.rp(r, (hit[0],), "sin accuracy"))
            break
        V.inconc("w_sin [%s]: accuracy not proved on cell [%d,%d]: error bound %.3f + slack, allowed %.3f; result range [%.1f, %.1f]" % (cfg, a, b, err, bound, dn, up))
    return info
