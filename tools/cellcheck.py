#!/usr/bin/env python3
"""Self-check (not a property check) of checks/fxnum.py: on sampled cells of the one-parameter accuracy proofs, the concrete result
at sampled arguments must lie in  v(x0) + D (x - x0) +- E  (idealised value at the cell midpoint, derivative enclosure, rounding budget)."""
import os
import sys
import random
from fractions import Fraction
sys.path.insert(0, os.path.dirname(os.path.dirname(os.path.abspath(__file__))))
sys.setrecursionlimit(20000)
from checks import lib, fxnum, c12
from checks.fxnum import Unsupported


def main():
    rnd = random.Random(11)
    total = bad = 0
    jobs = [("K17", "w_sin", (-411775, 411775), False), ("K17", "w_tan", (0, 205886), False), ("K17", "w_atan", (0, (1 << 40) - 1), False),
            ("K17", "w_asin", (0, 65536), False), ("K17A", "w_asin", (0, 65536), True), ("K17", "w_cos", (-411775, 411775), False)]
    for cfg, w, (lo, hi), summ in jobs:
        ctx = lib.Ctx(cfg, c12.EXTRA, only={w}, summaries=summ)
        r = ctx.run(w, [("i", lo, hi)])
        n = 0
        for p in r.paths:
            a0, b0 = p.state.bounds["p0"]
            a0, b0 = max(a0, lo), min(b0, hi)
            if a0 > b0:
                continue
            for _ in range(40):
                a = rnd.randint(a0, b0)
                wdt = max(1, min(64 if b0 < 1 << 20 else a >> 8, b0 - a + 1))
                b = a + wdt - 1
                try:
                    x0, v0, D, E = fxnum.cell_bound(p.ret, a, b)
                except (Unsupported, ZeroDivisionError):
                    continue
                for x in {a, b, rnd.randint(a, b), rnd.randint(a, b)}:
                    # only arguments no other path's box contains
                    if sum(1 for q in r.paths if q.state.bounds["p0"][0] <= x <= q.state.bounds["p0"][1]) != 1:
                        continue
                    o = r.conc((x,))
                    if o[0] != "ret":
                        continue
                    n += 1
                    dx = x - x0
                    lo_v = v0 + min(D[0] * dx, D[1] * dx) - E
                    hi_v = v0 + max(D[0] * dx, D[1] * dx) + E
                    if not (lo_v <= o[1] <= hi_v):
                        bad += 1
                        if bad < 6:
                            print("MISS %s [%s] x=%d cell [%d,%d]: result %d not in [%.4f, %.4f]" % (w, cfg, x, a, b, o[1], float(lo_v), float(hi_v)))
        total += n
        print("  %s [%s]: %d arguments" % (w, cfg, n))
    print("cellcheck: %d sampled arguments, %d outside their enclosure" % (total, bad))
    return 1 if bad else 0


if __name__ == "__main__":
    sys.exit(main())
