"""AST rules over the driver translation unit (clang-query-14, resolved declarations, template instantiations).

Rules are repository specific:
  ATTR   a function declared [[gnu::const]] / [[gnu::pure]] must not take a reference to non-const, a pointer, or
         return a reference: the attribute licenses the optimiser to delete or merge calls, so a false attribute
         makes results depend on the optimisation level (clang -O1 deletes 'a += b;').
  NCDEF  function definitions in namespace fixedmath that are not constexpr
  NCCALL calls from a constexpr function of the library to a non-constexpr callee, except in the else-arm of
         'if (std::is_constant_evaluated())' (the one sanctioned run-time-only region)
  BLOCK  constructs that can never be constant evaluated inside library functions (asm, goto, reinterpret_cast,
         static/thread_local locals, try, throw)
"""
import os
import re
import subprocess
import tempfile
import shutil
from fxai import pipeline as P
from fxai import runner
from spec import entry as ENT

NS = 'hasAncestor(namespaceDecl(hasName("fixedmath")))'
ICE = 'ifStmt(hasCondition(ignoringParenImpCasts(callExpr(callee(functionDecl(hasName("is_constant_evaluated")))))))'

QUERIES = {
    "ATTR": 'functionDecl(anyOf(hasAttr("attr::Const"), hasAttr("attr::Pure")), %s, anyOf('
            'hasAnyParameter(hasType(referenceType(pointee(unless(isConstQualified()))))), '
            'hasAnyParameter(hasType(pointerType())), returns(referenceType()))).bind("x")' % NS,
    "NCDEF": 'functionDecl(isDefinition(), unless(isConstexpr()), unless(isImplicit()), unless(isDeleted()), unless(isDefaulted()), %s).bind("x")' % NS,
    "NCDECL": 'functionDecl(unless(isDefinition()), unless(isConstexpr()), unless(isImplicit()), %s, '
              'unless(hasParent(functionTemplateDecl())), unless(cxxMethodDecl())).bind("x")' % NS,
    "NCCALL": 'callExpr(callee(functionDecl(unless(isConstexpr()), unless(hasName("is_constant_evaluated")), unless(matchesName("^::__builtin_"))).bind("callee")), '
              'hasAncestor(functionDecl(isConstexpr(), %s))).bind("x")' % NS,
    "NCCALL_OK": '%s' % ICE.replace("ifStmt(", "ifStmt(hasElse(forEachDescendant(callExpr(callee(functionDecl(unless(isConstexpr())))).bind(\"x\"))), ", 1),
    "NCCALL_OK2": 'ifStmt(hasCondition(ignoringParenImpCasts(callExpr(callee(functionDecl(hasName("is_constant_evaluated")))))), '
                  'hasElse(callExpr(callee(functionDecl(unless(isConstexpr())))).bind("x")))',
    "NCCALL_OK3": 'ifStmt(hasCondition(ignoringParenImpCasts(callExpr(callee(functionDecl(hasName("is_constant_evaluated")))))), '
                  'hasElse(returnStmt(forEachDescendant(callExpr(callee(functionDecl(unless(isConstexpr())))).bind("x")))))',
    # the run-time-only region may also be the then-arm of the negated test: if( !std::is_constant_evaluated() ) { ... }
    "NCCALL_OK4": 'ifStmt(hasCondition(ignoringParenImpCasts(unaryOperator(hasOperatorName("!"), hasUnaryOperand(ignoringParenImpCasts('
                  'callExpr(callee(functionDecl(hasName("is_constant_evaluated"))))))))), '
                  'hasThen(anyOf(forEachDescendant(callExpr(callee(functionDecl(unless(isConstexpr())))).bind("x")), '
                  'callExpr(callee(functionDecl(unless(isConstexpr())))).bind("x"))))',
    "BLOCK_ASM": 'asmStmt(hasAncestor(functionDecl(%s))).bind("x")' % NS,
    "BLOCK_GOTO": 'gotoStmt(hasAncestor(functionDecl(%s))).bind("x")' % NS,
    "BLOCK_RCAST": 'cxxReinterpretCastExpr(hasAncestor(functionDecl(isConstexpr(), %s))).bind("x")' % NS,
    "BLOCK_STATIC": 'varDecl(hasStaticStorageDuration(), hasAncestor(functionDecl(isConstexpr(), %s)), unless(isConstexpr())).bind("x")' % NS,
    "BLOCK_TRY": 'cxxTryStmt(hasAncestor(functionDecl(isConstexpr(), %s))).bind("x")' % NS,
    "BLOCK_THROW": 'cxxThrowExpr(hasAncestor(functionDecl(isConstexpr(), %s))).bind("x")' % NS,
    "PUBFN": 'functionDecl(isDefinition(), unless(isImplicit()), %s).bind("x")' % NS,
}


def run(config, repo=None, names=None):
    """returns {rule: sorted list of (file relative to repo, line, col, source line text)}"""
    repo = repo or P.REPO
    ents = [e for e in ENT.entries() if e.name not in runner.NOT_INSTANTIABLE]
    tmp = tempfile.mkdtemp(prefix="fxast-")
    try:
        src = os.path.join(tmp, "d.cc")
        open(src, "w").write(ENT.driver_source(ents))
        q = os.path.join(tmp, "q.cq")
        names = names or list(QUERIES)
        with open(q, "w") as f:
            f.write("set output diag\nset bind-root false\n")
            for n in names:
                f.write("match %s\n" % QUERIES[n])
        p = subprocess.run(["clang-query-14", "-f", q, src, "--"] + P.CONFIGS[config] +
                           ["-I" + os.path.join(repo, "fixed_lib/include"), "-Wno-everything"],
                           stdout=subprocess.PIPE, stderr=subprocess.PIPE, text=True)
        out = p.stdout
        if "error:" in p.stderr and "matches." not in out and "match." not in out:
            raise RuntimeError("clang-query failed: " + p.stderr[-2000:])
        # split the output per query: each query ends with "N matches." / "1 match."
        chunks = re.split(r"(?m)^\d+ match(?:es)?\.\s*$", out)
        res = {}
        cache = {}
        for n, chunk in zip(names, chunks):
            hits = set()
            for blk in re.split(r"(?m)^Match #\d+:\s*$", chunk)[1:]:
                loc = {}
                for m in re.finditer(r'(?m)^(\S+?):(\d+):(\d+): note: "(x|callee)" binds here', blk):
                    loc[m.group(4)] = (m.group(1), int(m.group(2)), int(m.group(3)))
                if "x" not in loc:
                    continue
                fn, ln, col = loc["x"]
                if fn not in cache:
                    try:
                        cache[fn] = open(fn, errors="replace").read().split("\n")
                    except OSError:
                        cache[fn] = []
                text = cache[fn][ln - 1].strip() if ln - 1 < len(cache[fn]) else ""
                rel = os.path.relpath(fn, repo) if fn.startswith(repo) else fn
                if "callee" in loc:
                    cf, cl, cc = loc["callee"]
                    if cf not in cache:
                        try:
                            cache[cf] = open(cf, errors="replace").read().split("\n")
                        except OSError:
                            cache[cf] = []
                    ctext = cache[cf][cl - 1].strip() if cl - 1 < len(cache[cf]) else ""
                    crel = os.path.relpath(cf, repo) if cf.startswith(repo) else cf
                    hits.add((rel, ln, col, text, crel, cl, ctext))
                else:
                    hits.add((rel, ln, col, text))
            res[n] = sorted(hits)
        if len(chunks) - 1 < len(names):
            raise RuntimeError("clang-query produced %d result blocks for %d queries: %s" % (len(chunks) - 1, len(names), p.stderr[-1500:]))
        return res
    finally:
        shutil.rmtree(tmp, ignore_errors=True)


def fn_name(text):
    """best effort: the function name on a declaration line"""
    m = re.search(r"(operator\s*[^\s(]+|[A-Za-z_][A-Za-z_0-9]*)\s*\(", text)
    return m.group(1).replace(" ", "") if m else text[:40]


def false_attr(V, config, only=None, site_prefix=""):
    """ATTR rule as an obligation of a property check; `only` restricts to the named functions"""
    try:
        r = run(config, names=["ATTR", "PUBFN"])
    except Exception as e:
        V.broke("AST rule ATTR (%s): %s" % (config, str(e)[:500]))
        return
    n = len([h for h in r.get("PUBFN", []) if h[0].startswith("fixed_lib")])
    if n < 80:
        V.broke("AST rule ATTR (%s): only %d library functions seen" % (config, n))
    hits = [h for h in r.get("ATTR", []) if h[0].startswith("fixed_lib")]
    bad = 0
    for h in hits:
        name = fn_name(h[3])
        if only is not None and name not in only:
            continue
        bad += 1
        V.violation("false-const-attribute", name,
                    "%s:%d: '%s' is declared [[gnu::const]]/[[gnu::pure]] but takes a non-const reference/pointer or returns a reference: an "
                    "optimiser may delete the call (clang -O1 drops 'a %s b;'), the result depends on how the call is compiled: %s" % (
                        h[0], h[1], name, name.replace("operator", ""), h[3]))
    V.oblige(bad == 0)
