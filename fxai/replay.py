"""Replay a witness against the real code: build a tiny program with clang UBSan+ASan and run it.
Outside every deciding step; used to tell a genuine defect from an engine bug."""
import json
import os
import subprocess
import sys
import tempfile
import shutil
from spec import entry as ENT
from . import pipeline as P


def lit(kind, v):
    if kind in ("f32", "f64"):
        if v != v:
            return "std::numeric_limits<%s>::quiet_NaN()" % ENT.CTYPE[kind]
        if v in (float("inf"), float("-inf")):
            return ("-" if v < 0 else "") + "std::numeric_limits<%s>::infinity()" % ENT.CTYPE[kind]
        return float(v).hex() + ("f" if kind == "f32" else "")
    v = int(v)
    if kind in ENT.BITS and kind[0] == "u":
        v &= (1 << ENT.BITS[kind]) - 1
        return "static_cast<%s>(%dull)" % (ENT.CTYPE[kind], v)
    if v == -(1 << 63):
        return "(-9223372036854775807ll - 1)"
    return "static_cast<%s>(%dll)" % (ENT.CTYPE[kind], v)


def program(ent, args, extra_sources=()):
    call = "%s(%s)" % (ent.name, ", ".join(lit(k, a) for k, a in zip(ent.params, args)))
    body = ent.source() + "\n" + "\n".join(extra_sources)
    return ENT.HEADER + body + "\n}\n#include <cstdio>\nint main(){ auto r = " + call + \
        "; std::printf(\"result=%lld / %.17g\\n\", (long long)r, (double)r); return 0; }\n"


class SrcEntry:
    def __init__(self, name, params, src):
        self.name = name
        self.params = params
        self.src = src

    def source(self):
        return self.src


def replay(ent, args, config="K17", repo=None, sanitize=True, opt="-O0"):
    repo = repo or P.REPO
    tmp = tempfile.mkdtemp(prefix="fxreplay-")
    try:
        src = os.path.join(tmp, "r.cc")
        open(src, "w").write(program(ent, args))
        exe = os.path.join(tmp, "r")
        cmd = ["clang++"] + P.CONFIGS[config] + [opt, "-g", "-I" + os.path.join(repo, "fixed_lib/include"),
                                                  "-Wno-everything", src, os.path.join(repo, "fixed_lib/src/fixed_math.cc"), "-o", exe]
        if sanitize:
            cmd[1:1] = ["-fsanitize=undefined,address", "-fno-sanitize-recover=all"]
        p = subprocess.run(cmd, stdout=subprocess.PIPE, stderr=subprocess.STDOUT, text=True)
        if p.returncode != 0:
            return {"built": False, "log": p.stdout[-3000:]}
        env = dict(os.environ, UBSAN_OPTIONS="print_stacktrace=0", ASAN_OPTIONS="detect_leaks=0")
        q = subprocess.run([exe], stdout=subprocess.PIPE, stderr=subprocess.STDOUT, text=True, env=env, timeout=60)
        return {"built": True, "exit": q.returncode, "output": q.stdout[-3000:]}
    finally:
        shutil.rmtree(tmp, ignore_errors=True)


def main(path):
    d = json.load(open(path))
    if "args" not in d:
        print(json.dumps({"note": "structural violation without a concrete input", "text": d.get("text")}, indent=1))
        return 0
    ents = {e.name: e for e in ENT.entries()}
    if d.get("entry_source") and d.get("params") is not None:
        ent = SrcEntry(d["wrapper"], d["params"], d["entry_source"])
    else:
        ent = ents[d["wrapper"]]
    for san in (True, False):
        r = replay(ent, d["args"], d.get("config", "K17"), sanitize=san)
        print("== %s build: %s(%s) [%s]" % ("UBSan+ASan" if san else "plain -O0", d["wrapper"], ", ".join(map(str, d["args"])), d.get("config", "K17")))
        print(json.dumps(r, indent=1))
    if d.get("other_source"):
        ent2 = SrcEntry(d["other"], d["params"], d["other_source"])
        r = replay(ent2, d["args"], d.get("config", "K17"), sanitize=False)
        print("== compared program %s:" % d["other"])
        print(json.dumps(r, indent=1))
    print("expected: %s" % d.get("expected"))
    return 0
