"""Linear forms over symbols with rational coefficients (immutable)."""
from fractions import Fraction
import hashlib


def _norm(x):
    if isinstance(x, Fraction) and x.denominator == 1:
        return x.numerator
    return x


class Lin:
    __slots__ = ("c", "t", "_key")

    def __init__(self, c=0, t=None):
        self.c = _norm(c)
        self.t = t if t is not None else {}
        self._key = None

    # construction ------------------------------------------------
    @staticmethod
    def const(c):
        return Lin(c, {})

    @staticmethod
    def sym(s, k=1):
        return Lin(0, {s: k})

    def is_const(self):
        return not self.t

    def single(self):
        """(sym, coef) if exactly one symbol, else None"""
        if len(self.t) == 1:
            for s, k in self.t.items():
                return s, k
        return None

    def add(self, o):
        if not o.t:
            return Lin(self.c + o.c, self.t)
        if not self.t:
            return Lin(self.c + o.c, o.t)
        t = dict(self.t)
        for s, k in o.t.items():
            v = t.get(s, 0) + k
            if v == 0:
                t.pop(s, None)
            else:
                t[s] = _norm(v)
        return Lin(self.c + o.c, t)

    def addc(self, c):
        return Lin(self.c + c, self.t)

    def neg(self):
        return Lin(-self.c, {s: -k for s, k in self.t.items()})

    def sub(self, o):
        return self.add(o.neg())

    def scale(self, f):
        if f == 0:
            return Lin(0, {})
        if f == 1:
            return self
        return Lin(self.c * f, {s: _norm(k * f) for s, k in self.t.items()})

    def div(self, d):
        return self.scale(Fraction(1, d) if isinstance(d, int) else 1 / Fraction(d))

    def key(self):
        if self._key is None:
            self._key = (self.c, tuple(sorted(self.t.items(), key=lambda x: str(x[0]))))
        return self._key

    def __eq__(self, o):
        return isinstance(o, Lin) and self.key() == o.key()

    def __hash__(self):
        return hash(self.key())

    def integral_coefs(self):
        if isinstance(self.c, Fraction):
            return False
        for k in self.t.values():
            if isinstance(k, Fraction):
                return False
        return True

    def normalized(self):
        """returns (nlin_key, scale, offset) with self = scale * nlin + offset,
        nlin has no constant and leading (smallest str(sym)) coefficient 1."""
        if not self.t:
            return None
        s0 = min(self.t, key=str)
        sc = self.t[s0]
        items = tuple(sorted(((s, _norm(Fraction(k) / sc)) for s, k in self.t.items()), key=lambda x: str(x[0])))
        return items, sc, self.c

    def syms(self):
        return self.t.keys()

    def __repr__(self):
        parts = []
        for s, k in sorted(self.t.items(), key=lambda x: str(x[0])):
            parts.append("%s*%s" % (k, s) if k != 1 else str(s))
        if self.c != 0 or not parts:
            parts.append(str(self.c))
        return " + ".join(parts)


_TERMS = {}


def T(*args):
    """hash-consed term: returns a short deterministic hash string; keeps a table for printing."""
    r = repr(args)
    h = "t" + hashlib.blake2b(r.encode(), digest_size=8).hexdigest()
    if h not in _TERMS:
        _TERMS[h] = args
    return h


def term_str(h, depth=4):
    a = _TERMS.get(h)
    if a is None:
        return str(h)
    if depth == 0:
        return "..."
    out = []
    for x in a:
        if isinstance(x, str) and x in _TERMS:
            out.append(term_str(x, depth - 1))
        elif isinstance(x, tuple):
            out.append(_key_str(x, depth - 1))
        else:
            out.append(str(x))
    return "(" + " ".join(out) + ")"


def _key_str(k, depth):
    try:
        c, items = k
        parts = []
        for s, co in items:
            ss = term_str(s, depth) if isinstance(s, str) and s in _TERMS else str(s)
            parts.append("%s*%s" % (co, ss) if co != 1 else ss)
        if c != 0 or not parts:
            parts.append(str(c))
        return "[" + " + ".join(parts) + "]"
    except Exception:
        return str(k)


def term_args(h):
    return _TERMS.get(h)
