"""C13 front end of fxai.isqrt: the abacus loop of a wrapper computes floor(sqrt(N)) for the N it is entered with."""
from fxai import pipeline as P
from fxai import isqrt as Q
from fxai.interp import Broken


def prove(V, run, cfg, box, site):
    """run: a lib.Run of a wrapper whose only loop is the square-root loop; box: the ('i', lo, hi) box of parameter 0 for which
    the loop is entered.  Obliges (a) the inductive steps of the loop body, (b) the invariant at every first arrival.
    Returns a dict describing what was established (or None after reporting why not)."""
    an = run.an
    tag = "%s [%s]" % (run.name, cfg)
    if len(an.loop_heads) != 1:
        V.broke("%s: expected exactly one loop, found %d" % (tag, len(an.loop_heads)))
        return None
    h = next(iter(an.loop_heads))
    saved = dict(an.isqrt_spec)
    an.isqrt_spec = {}
    try:
        spec, why = Q.find_spec(an, h)
        V.oblige(spec is not None)
        if spec is None:
            V.inconc("%s: the loop at %%%s is not a verified square-root loop: %s" % (tag, h, why))
            return None
        V.oblige(True, spec["steps"])
        info = {"head": h, "classes": [], "steps": spec["steps"], "roles": spec["role"]}
        # first arrivals (the loop is not summarised here: the arrivals themselves are inspected)
        an.stop_hook = lambda s: s.block == h and (s.prev, h) not in an.back_edges
        try:
            res = an.run(P.init_state(an.fn, [box]))
        except Broken as e:
            V.broke("%s: %s" % (tag, e))
            return None
        finally:
            an.stop_hook = None
        if not res.stopped:
            V.broke("%s: the loop is never reached" % tag)
            return None
        an.isqrt_spec = {h: spec}
        nform = None
        ok_all = True
        kmax = -1
        for s in res.stopped:
            an.do_phis(s)
            e = Q.entry_ok(an, s, h)
            V.oblige(e is not None)
            if e is None:
                ok_all = False
                V.inconc("%s: a first arrival at the loop does not satisfy the invariant with a == 0 (result 0, pwr4 = 4^K, 0 <= N < 4^(K+1)): %s" % (
                    tag, {n: repr(s.env[n])[:70] for n in an.head_phis[h]}))
                continue
            u, K = e
            if nform is None:
                nform = u
            elif nform.key() != u.key():
                ok_all = False
                V.oblige(False)
                V.inconc("%s: the value the loop starts from differs between first arrivals: %s vs %s" % (tag, nform, u))
                continue
            nl, nh = s.rng_lin_int(u)
            kmax = max(kmax, K)
            info["classes"].append({"K": K, "N": [nl, nh]})
        if not ok_all:
            return None
        base0 = P.init_state(an.fn, [box])
        info["kmax"] = kmax
        info["N"] = str(nform)
        info["N_range"] = list(base0.rng_lin_int(nform))
        return info
    finally:
        an.isqrt_spec = saved
