"""Abstract values and path state for fxai."""
from fractions import Fraction
import math
from .lin import Lin, T

INF = float("inf")


def fl(x):
    return x.numerator // x.denominator if isinstance(x, Fraction) else x


def cl(x):
    return -((-x.numerator) // x.denominator) if isinstance(x, Fraction) else x


class Infeasible(Exception):
    pass


class Split(Exception):
    """raised by a transfer function: fork the state into the given cases and retry.
    each case is a list of refinements:
      ('lin', Lin, lo|None, hi|None)   ('pred', pred, truth)   ('f', fsym, lo, hi, nan)
    """

    def __init__(self, cases, why=""):
        self.cases = cases
        self.why = why


class IntV:
    __slots__ = ("w", "lin", "lo", "hi", "tz", "pred", "pbase")

    def __init__(self, w, lin, lo, hi, tz=0, pred=None, pbase=None):
        self.w = w
        self.lin = lin
        self.lo = lo
        self.hi = hi
        self.tz = tz
        self.pred = pred
        self.pbase = pbase

    def __repr__(self):
        return "i%d[%s..%s]{%r}" % (self.w, self.lo, self.hi, self.lin)


class BoolV:
    __slots__ = ("tv", "pred")

    def __init__(self, tv, pred=None):
        self.tv = tv          # True / False / None
        self.pred = pred if tv is None else ("const", tv)

    def __repr__(self):
        return "bool(%s)" % (self.tv,)


class FpV:
    __slots__ = ("kind", "lo", "hi", "nan", "term", "xlin", "fsym", "slin")

    def __init__(self, kind, lo, hi, nan, term, xlin=None, fsym=None, slin=None):
        self.slin = slin      # integer-valued Lin with the same sign as the value (value never NaN)
        self.kind = kind
        self.lo = lo
        self.hi = hi
        self.nan = nan
        self.term = term
        self.xlin = xlin      # value equals this Lin exactly as a real number (and is not NaN)
        self.fsym = fsym

    def __repr__(self):
        return "%s[%r..%r%s]" % (self.kind, self.lo, self.hi, " nan" if self.nan else "")


class PtrV:
    __slots__ = ("glob", "off")

    def __init__(self, glob, off):
        self.glob = glob
        self.off = off        # IntV (64 bit) byte offset

    def __repr__(self):
        return "&%s+%r" % (self.glob, self.off)


class AggV:
    __slots__ = ("fields",)

    def __init__(self, fields):
        self.fields = fields


def pred_key(p):
    k = p[0]
    if k == "icmp":
        return ("icmp", p[1], p[2].lin.key(), p[3].lin.key(), p[2].w)
    if k == "fcmp":
        return ("fcmp", p[1], p[2].term, p[3].term)
    if k == "not":
        return ("not", pred_key(p[1]))
    if k in ("and", "or"):
        return (k, pred_key(p[1]), pred_key(p[2]))
    if k == "const":
        return ("const", p[1])
    if k == "lin":
        return ("lin", p[1].key(), p[2], p[3])
    raise ValueError(p)


class PList:
    """persistent (shared-tail) list: O(1) push and fork"""
    __slots__ = ("head",)

    def __init__(self, head=None):
        self.head = head

    def append(self, x):
        self.head = (x, self.head)

    def extend(self, xs):
        for x in xs:
            self.head = (x, self.head)

    def copy(self):
        return PList(self.head)

    def __iter__(self):
        out = []
        n = self.head
        while n is not None:
            out.append(n[0])
            n = n[1]
        return iter(reversed(out))

    def __len__(self):
        k = 0
        n = self.head
        while n is not None:
            k += 1
            n = n[1]
        return k

    def __add__(self, other):
        r = PList(self.head)
        r.extend(other)
        return r


class State:
    def __init__(self):
        self.env = {}
        self.bounds = {}      # sym -> (lo, hi)   integer symbols
        self.cons = {}        # normalized key -> (lo, hi) on the normalized form (Fractions or None)
        self.conlin = {}      # normalized key -> Lin (normalized form) for propagation
        self.fb = {}          # float symbol -> (lo, hi, nan)
        self.block = None
        self.prev = None
        self.pc = 0
        self.trace = PList()
        self.tag = ()
        self.iters = {}
        self.wraps = PList()  # wrap events [(kind, inst line, k)]
        self.notes = PList()
        self.prod = {}        # product symbol -> (lin key a, lin key b)
        self.steps = 0
        self.isc = {}
        self.parted = frozenset()
        self.src = None

    def fork(self):
        s = State.__new__(State)
        s.env = dict(self.env)
        s.bounds = dict(self.bounds)
        s.cons = dict(self.cons)
        s.conlin = self.conlin if not self.conlin else dict(self.conlin)
        s.fb = dict(self.fb)
        s.block = self.block
        s.prev = self.prev
        s.pc = self.pc
        s.trace = self.trace.copy()
        s.tag = self.tag
        s.iters = dict(self.iters)
        s.wraps = self.wraps.copy()
        s.notes = self.notes.copy()
        s.prod = dict(self.prod)
        s.steps = self.steps
        s.isc = dict(self.isc)
        s.parted = self.parted
        s.src = self.src
        return s

    # ---------------------------------------------------------- ranges
    def rng_raw(self, lin):
        """rational bounds of a linear form from symbol bounds and stored constraints"""
        lo = hi = lin.c
        b = self.bounds
        for s, k in lin.t.items():
            a, z = b[s]
            if k > 0:
                lo += k * a
                hi += k * z
            else:
                lo += k * z
                hi += k * a
        if len(lin.t) > 1 and self.cons:
            nk, sc, off = lin.normalized()
            c = self.cons.get(nk)
            if c is not None:
                clo, chi = c
                if sc > 0:
                    a = None if clo is None else clo * sc + off
                    z = None if chi is None else chi * sc + off
                else:
                    a = None if chi is None else chi * sc + off
                    z = None if clo is None else clo * sc + off
                if a is not None and a > lo:
                    lo = a
                if z is not None and z < hi:
                    hi = z
        return lo, hi

    def rng(self, v):
        """integer range of an IntV (its value is an integer)"""
        lo, hi = self.rng_raw(v.lin)
        lo = cl(lo)
        hi = fl(hi)
        if v.lo > lo:
            lo = v.lo
        if v.hi < hi:
            hi = v.hi
        if lo > hi:
            raise Infeasible()
        return lo, hi

    def rng_lin_int(self, lin):
        lo, hi = self.rng_raw(lin)
        return cl(lo), fl(hi)

    # ---------------------------------------------------------- refinement
    def constrain(self, lin, lo, hi):
        """require lo <= lin <= hi (None = unbounded). lin is integer valued unless coefficients say otherwise."""
        if lin.is_const():
            if (lo is not None and lin.c < lo) or (hi is not None and lin.c > hi):
                raise Infeasible()
            return
        sg = lin.single()
        if sg is not None:
            s, k = sg
            self._tighten_sym(s, k, lin.c, lo, hi)
            self._propagate()
            return
        nk, sc, off = lin.normalized()
        # bounds on normalized form
        if sc > 0:
            nlo = None if lo is None else Fraction(lo - off) / sc
            nhi = None if hi is None else Fraction(hi - off) / sc
        else:
            nlo = None if hi is None else Fraction(hi - off) / sc
            nhi = None if lo is None else Fraction(lo - off) / sc
        old = self.cons.get(nk)
        if old is not None:
            olo, ohi = old
            if olo is not None and (nlo is None or olo > nlo):
                nlo = olo
            if ohi is not None and (nhi is None or ohi < nhi):
                nhi = ohi
        if nlo is not None and nhi is not None and nlo > nhi:
            raise Infeasible()
        self.cons[nk] = (nlo, nhi)
        if nk not in self.conlin:
            self.conlin[nk] = Lin(0, dict(nk))
        self._propagate()
        # feasibility of the constrained form against the box
        a, z = self.rng_raw(lin)
        if a > z:
            raise Infeasible()

    def _tighten_sym(self, s, k, c, lo, hi):
        a, z = self.bounds[s]
        # lo <= k*s + c <= hi
        if k > 0:
            if lo is not None:
                a = max(a, cl(Fraction(lo - c) / k))
            if hi is not None:
                z = min(z, fl(Fraction(hi - c) / k))
        else:
            if lo is not None:
                z = min(z, fl(Fraction(lo - c) / k))
            if hi is not None:
                a = max(a, cl(Fraction(hi - c) / k))
        if a > z:
            raise Infeasible()
        self.bounds[s] = (a, z)

    def _propagate(self):
        if not self.cons:
            return
        for _ in range(4):
            changed = False
            for nk, (clo, chi) in self.cons.items():
                items = nk
                # interval of whole form
                for s, k in items:
                    # rest = form - k*s
                    rlo = rhi = 0
                    for s2, k2 in items:
                        if s2 == s:
                            continue
                        a, z = self.bounds[s2]
                        if k2 > 0:
                            rlo += k2 * a
                            rhi += k2 * z
                        else:
                            rlo += k2 * z
                            rhi += k2 * a
                    a, z = self.bounds[s]
                    na, nz = a, z
                    # clo <= k*s + rest <= chi  =>  (clo - rhi) <= k*s <= (chi - rlo)
                    if k > 0:
                        if clo is not None:
                            na = max(na, cl(Fraction(clo - rhi) / k))
                        if chi is not None:
                            nz = min(nz, fl(Fraction(chi - rlo) / k))
                    else:
                        if clo is not None:
                            nz = min(nz, fl(Fraction(clo - rhi) / k))
                        if chi is not None:
                            na = max(na, cl(Fraction(chi - rlo) / k))
                    if na > nz:
                        raise Infeasible()
                    if na != a or nz != z:
                        self.bounds[s] = (na, nz)
                        changed = True
            if not changed:
                break

    # ---------------------------------------------------------- symbols
    def mint(self, term, lo, hi):
        """symbol named by its defining term; bounds are intersected when re-minted"""
        old = self.bounds.get(term)
        if old is not None:
            lo = max(lo, old[0])
            hi = min(hi, old[1])
            if lo > hi:
                raise Infeasible()
        self.bounds[term] = (lo, hi)
        return term
