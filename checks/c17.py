"""C17: arithmetic obeys the algebraic laws of exact arithmetic where defined.

Decided by summary equivalence / region checks on composed wrappers. The two clauses that quantify over an
unbounded operation count (a*n == a+...+a, a<b => a+c<=b+c) are decided through instances plus the exactness
lemmas of C01/C02 (stated in the evidence)."""
from . import common, lib
from .lib import M, FIN, E, sym
from fxai.interp import Broken
from fxai.lin import Lin

A, B, C_ = "as_fixed(a)", "as_fixed(b)", "as_fixed(c)"
LO, HI = -(M - 1), M - 1
T47 = (1 << 47) - 1
S47 = ("i", -T47, T47)

EXTRA = [
    E("w_add_sw", ["fx", "fx"], "fx", "return (%s + %s).v;" % (B, A)),
    E("w_mul_sw", ["fx", "fx"], "fx", "return (%s * %s).v;" % (B, A)),
    E("w_add_negb", ["fx", "fx"], "fx", "return (%s + (-%s)).v;" % (A, B)),
    E("w_sub_aa", ["fx"], "fx", "return (%s - %s).v;" % (A, A)),
    E("w_mul_one", ["fx"], "fx", "return (%s * 1_fix).v;" % A),
    E("w_mul_zero", ["fx"], "fx", "return (%s * 0_fix).v;" % A),
    E("w_div_one", ["fx"], "fx", "return (%s / 1_fix).v;" % A),
    E("w_div_aa", ["fx"], "fx", "return (%s / %s).v;" % (A, A)),
    E("w_addsub", ["fx", "fx"], "fx", "return ((%s + %s) - %s).v;" % (A, B, B)),
    ENT_3 := None,
]
EXTRA = [e for e in EXTRA if e is not None]


class E3(lib.ENT.Entry):
    def source(self):
        return "%s %s(int64_t a, int64_t b, int64_t c){ %s }" % (lib.ENT.CTYPE[self.ret], self.name, self.body)


EXTRA += [
    E3("w_assoc_l", ["fx", "fx", "fx"], "fx", "return ((%s + %s) + %s).v;" % (A, B, C_), "", "prop"),
    E3("w_assoc_r", ["fx", "fx", "fx"], "fx", "return (%s + (%s + %s)).v;" % (A, B, C_), "", "prop"),
    E3("w_mono", ["fx", "fx", "fx"], "bool", "return !(%s < %s) || ((%s + %s) <= (%s + %s));" % (A, B, A, C_, B, C_), "", "prop"),
    E("w_mul_2", ["fx"], "fx", "return (%s * 2).v;" % A),
    E("w_add_2", ["fx"], "fx", "return (%s + %s).v;" % (A, A)),
    E("w_mul_3", ["fx"], "fx", "return (%s * 3).v;" % A),
    E("w_add_3", ["fx"], "fx", "return ((%s + %s) + %s).v;" % (A, A, A)),
]
EXTRA += [E("w_muldiv_" + t, ["fx", t], "fx", "return ((%s * b) / b).v;" % A) for t in lib.ENT.INTS]
EXTRA += [E("w_muldivr_" + t, [t, "fx"], "fx", "return ((a * %s) / a).v;" % B) for t in lib.ENT.INTS]


def run(tier, seed):
    V = common.Verdict("C17", tier, seed)
    configs = ["K17", "K20"] if tier == "quick" else ["K17", "K20"]
    a, b, c = sym(0), sym(1), sym(2)
    for cfg in configs:
        try:
            ctx = lib.Ctx(cfg, EXTRA)
            lib.check_equiv(V, ctx.run("w_add_ff", [FIN, FIN]), ctx.run("w_add_sw", [FIN, FIN]), "a+b == b+a", site="fixed_addition")
            lib.check_equiv(V, ctx.run("w_mul_ff", [FIN, FIN]), ctx.run("w_mul_sw", [FIN, FIN]), "a*b == b*a", site="fixed_multiply")
            lib.check_equiv(V, ctx.run("w_sub_ff", [FIN, FIN]), ctx.run("w_add_negb", [FIN, FIN]), "a-b == a+(-b)", site="fixed_substract")
            lib.check_regions(V, ctx.run("w_sub_aa", [FIN]), [("all", [], ("const", 0))], lambda x, o: o != ("ret", 0), "a-a == 0", site="fixed_substract")
            lib.check_regions(V, ctx.run("w_mul_one", [S47]), [("all", [], ("lin", a))], lambda x, o: o != ("ret", x[0]), "a*1 == a", site="fixed_multiply")
            lib.check_regions(V, ctx.run("w_mul_zero", [S47]), [("all", [], ("const", 0))], lambda x, o: o != ("ret", 0), "a*0 == 0", site="fixed_multiply")
            lib.check_regions(V, ctx.run("w_div_one", [S47]), [("all", [], ("lin", a))], lambda x, o: o != ("ret", x[0]), "a/1 == a", site="fixed_division")
            lib.check_regions(V, ctx.run("w_div_aa", [S47]), [("a>0", [(a, 1, None)], ("const", 65536)), ("a<0", [(a, None, -1)], ("const", 65536))],
                              lambda x, o: x[0] != 0 and o != ("ret", 65536), "a/a == 1 for a != 0", site="fixed_division")
            lib.check_regions(V, ctx.run("w_addsub", [FIN, FIN]), [("a+b finite", [(a.add(b), LO, HI)], ("lin", a))],
                              lambda x, o: LO <= x[0] + x[1] <= HI and o != ("ret", x[0]), "(a+b)-b == a when a+b is not NaN", site="fixed_addition")
            s3 = a.add(b).add(c)
            nonan = [(a.add(b), LO, HI), (b.add(c), LO, HI), (s3, LO, HI)]
            f3 = [FIN, FIN, FIN]
            okr = lambda x: all(LO <= v <= HI for v in (x[0] + x[1], x[1] + x[2], x[0] + x[1] + x[2]))
            lib.check_regions(V, ctx.run("w_assoc_l", f3), [("no NaN", nonan, ("lin", s3))], lambda x, o: okr(x) and o != ("ret", sum(x)),
                              "(a+b)+c == a+b+c when nothing is NaN", site="fixed_addition")
            lib.check_regions(V, ctx.run("w_assoc_r", f3), [("no NaN", nonan, ("lin", s3))], lambda x, o: okr(x) and o != ("ret", sum(x)),
                              "a+(b+c) == a+b+c when nothing is NaN", site="fixed_addition")
            nonan2 = [(a.add(c), LO, HI), (b.add(c), LO, HI)]
            lib.check_regions(V, ctx.run("w_mono", f3), [("no NaN", nonan2, ("const", 1))],
                              lambda x, o: all(LO <= v <= HI for v in (x[0] + x[2], x[1] + x[2])) and o != ("ret", 1),
                              "a<b implies a+c <= b+c when nothing is NaN", site="fixed_addition")
            lib.check_regions(V, ctx.run("w_mul_2", [FIN]), [("2a finite", [(a.scale(2), LO, HI)], ("lin", a.scale(2)))],
                              lambda x, o: LO <= 2 * x[0] <= HI and o != ("ret", 2 * x[0]), "a*2 == 2a", site="fixed_multiply_scalar")
            lib.check_regions(V, ctx.run("w_add_2", [FIN]), [("2a finite", [(a.scale(2), LO, HI)], ("lin", a.scale(2)))],
                              lambda x, o: LO <= 2 * x[0] <= HI and o != ("ret", 2 * x[0]), "a+a == 2a", site="fixed_addition")
            lib.check_regions(V, ctx.run("w_mul_3", [FIN]), [("3a finite", [(a.scale(3), LO, HI)], ("lin", a.scale(3)))],
                              lambda x, o: LO <= 3 * x[0] <= HI and o != ("ret", 3 * x[0]), "a*3 == 3a", site="fixed_multiply_scalar")
            lib.check_regions(V, ctx.run("w_add_3", [FIN]), [("3a finite", [(a.scale(3), LO, HI)], ("lin", a.scale(3)))],
                              lambda x, o: LO <= 3 * x[0] <= HI and o != ("ret", 3 * x[0]), "a+a+a == 3a", site="fixed_addition")
            for t in lib.ENT.INTS:
              for w, swap in (("w_muldiv_" + t, False), ("w_muldivr_" + t, True)):
                dom = lib.ENT.domain(t)
                r = ctx.run(w, [dom, FIN] if swap else [FIN, dom])
                N_ = lib.ENT.BITS[t]
                a_ = sym(1) if swap else sym(0)
                n_ = sym(0) if swap else sym(1)
                # (a*n)/n == a whenever n != 0 and a*n is not NaN  <=> on every path not returning NaN the result is a
                def acc(p, a_=a_, n_=n_, t=t, N_=N_):
                    from .c02 import prod_lin, B63
                    for cons, nl in ([([], n_)] if t[0] == "i" else [([(n_, 0, None)], n_), ([(n_, None, -1)], n_.addc(1 << N_))]):
                        st = lib.feasible_with(p.state, cons)
                        if st is None:
                            continue
                        nlo, nhi = st.rng_lin_int(nl)
                        if nlo == nhi == 0:
                            continue          # n == 0 is outside the law
                        PI = prod_lin(st, a_, nl)
                        if PI is None:
                            a0, a1 = st.rng_lin_int(a_)
                            cs = [a0 * nlo, a0 * nhi, a1 * nlo, a1 * nhi]
                            if min(cs) > M - 1 or max(cs) < -(M - 1):
                                continue      # a*n is NaN on the whole path: outside the law
                            return False, "a*n is not computed on this path"
                        s2 = lib.feasible_with(st, [(PI, -(M - 1), M - 1)])
                        if s2 is None:
                            continue          # intermediate a*n is NaN on this path
                        ok, why = lib.holds(s2, p.ret, ("lin", a_))
                        if not ok:
                            return False, why
                    return True, ""

                mulrun = ctx.run(("w_mul_%s_f" % t) if swap else ("w_mul_f_" + t), [dom, FIN] if swap else [FIN, dom])

                def bad(x, o, swap=swap, t=t, N_=N_, mulrun=mulrun):
                    aa, nn = (x[1], x[0]) if swap else (x[0], x[1])
                    if nn == 0:
                        return False
                    inter = mulrun.conc(x)          # the library's own intermediate a*n
                    if inter[0] != "ret" or abs(inter[1]) == M:
                        return False
                    return o != ("ret", aa)
                lib.check_post(V, r, acc, bad, "(a*n)/n == a for n != 0 when a*n is not NaN [%s]" % t, site="fixed_division_by_scalar")
        except Broken as e:
            V.broke("%s: %s" % (cfg, e))
    expl = ("Laws decided on composed wrappers: commutativity of + and * and a-b == a+(-b) by summary equivalence of the two inlined "
            "programs over all finite operand pairs; a-a==0, a*1==a, a*0==0, a/1==a, a/a==1 (|a| < 2^47 raw) as region checks on the returned "
            "forms; (a+b)-b==a, associativity of +, (a*n)/n==a and a<b => a+c<=b+c on the regions where no intermediate is NaN (there every "
            "intermediate form is the exact integer expression, so the laws are those of Z). a*n == a+...+a: instances n=2,3 are checked "
            "directly; for general n it follows by induction from C01 (a+b exact when not NaN) and C02 (a*n exact when not NaN): both sides "
            "equal the integer n*a whenever all partial sums are representable. Not decided as a search problem: free-form operation "
            "histories (DESIGN section 6).")
    return V.finish("proof", expl, "./fx check C17 --tier %s" % tier, extra={"configs": configs})
