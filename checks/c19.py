"""C19: lookup-table approximations match the functions they tabulate (partly decided).

Decided: every table literal against a rigorous oracle; array extents; for sin/cos_angle_aprox and every int32 d
the loaded index is congruent to d modulo 360 and inside the table; sqrt_aprox(0)==0, NaN below 0; atan_index_aprox result range;
sqrt_aprox 2 % and atan_index_aprox 1.25 by exhaustive partition into constant-result cells."""
from fractions import Fraction
from . import common, lib, realmath as R
from .lib import M, FIN, ANYFX, sym
from fxai.interp import Broken
from fxai.state import IntV
from fxai.lin import Lin, term_args

TABLES = {
    "sin": ("_ZN9fixedmathL17sin_angle_table__E", 361),
    "cos": ("_ZN9fixedmathL17cos_angle_table__E", 361),
    "tan": ("_ZN9fixedmathL11tan_table__E", 256),
    "sqrt": ("_ZN9fixedmathL19square_root_table__E", 256),
}


def check_tables(V, run):
    an = run.an
    n = 0
    for key, (g, extent) in TABLES.items():
        try:
            esz, ebits, vals, gsz = an.flat_global(g)
        except Broken as e:
            V.broke("table %s: %s" % (key, e))
            continue
        ok_ext = len(vals) == extent
        V.oblige(ok_ext)
        if not ok_ext:
            V.violation("table extent", key + "_table", "%s table has %d entries, expected %d" % (key, len(vals), extent))
            continue
        for i, v in enumerate(vals):
            v &= (1 << ebits) - 1
            if key != "sqrt" and v >= 1 << (ebits - 1):
                v -= 1 << ebits
            if key == "sin":
                r = R.within(v, R.sin_deg(i), 65536, 2)
                what = "65536*sin(%d deg)" % i
                tgt = R.sin_deg(i)
            elif key == "cos":
                r = R.within(v, R.cos_deg(i), 65536, 2)
                what = "65536*cos(%d deg)" % i
                tgt = R.cos_deg(i)
            elif key == "tan":
                if i == 128:
                    continue
                t = R.tan_frac_pi(i, 256)
                lo, hi = R.to_frac(t)
                t2 = min(lo * lo, hi * hi) if lo * hi > 0 else Fraction(0)
                r = R.within(v, t, 65536, 2 * (1 + t2))
                what = "65536*tan(%d*pi/256)" % i
                tgt = t
            else:
                tgt = R.sqrt_iv(R.iv(Fraction(i, 256) + Fraction(31, 1 << 18)))
                r = R.within(v, tgt, 65536, 1)
                what = "65536*sqrt(%d/256 + 31/2^18)" % i
            n += 1
            V.oblige(r is True)
            if r is False:
                lo, hi = R.to_frac(tgt)
                V.violation("table literal", "%s_table[%d]" % (key, i),
                            "%s table entry [%d] = %d is not faithful to %s = %.6f" % (key, i, v, what, float(lo * 65536)))
            elif r is None:
                V.inconc("%s table entry [%d] = %d is within 2^-200 of the tolerance boundary" % (key, i, v))
            if i in (0, 45, 90, 127, 255, 360) and len(V.samples) < 12:
                V.sample({"table": key, "index": i, "literal": v, "oracle": what, "verdict": str(r)})
    return n


def subst_rem(an, lin, m):
    """replace every remainder symbol rem+(base, m) by its base form: sound modulo m"""
    out = Lin.const(Fraction(lin.cn, lin.d))
    for s, k in lin.t.items():
        co = Fraction(k, lin.d)
        ta = term_args(s) if isinstance(s, str) else None
        if ta is not None and ta[0] == "rem+" and ta[2] == m:
            cn, d, items = ta[1]
            base = Lin(cn, dict(items), d)
            out = out.add(base.scale(co))
        else:
            out = out.add(Lin.sym(s, 1).scale(co))
    return out


def check_index(V, run, gname, fn):
    """every path of <fn>_angle_aprox: the result is a load from the table at an index congruent to d mod 360"""
    an = run.an
    d = sym(0)
    for p in run.paths:
        r = p.ret
        ok = False
        why = ""
        st = p.state
        loads = [n for n in st.notes if n[0] == "load" and n[1] == gname]
        if not isinstance(r, IntV):
            why = "non-integer result"
        elif len(loads) != 1:
            why = "%d loads from the table on this path" % len(loads)
        else:
            idx = loads[0][2]
            ilo, ihi = st.rng_lin_int(idx)
            # the returned value must be the loaded value: either the load symbol or (constant index) the literal
            esz, ebits, vals, gsz = an.flat_global(gname)
            lo, hi = st.rng(r)
            sg = r.lin.single()
            is_load = False
            if sg is not None and sg[1] == 1 and r.lin.cn == 0:
                ta = term_args(sg[0])
                is_load = ta is not None and ta[0] == "load" and ta[1] == gname and ta[2] == idx.key()
            elif ilo == ihi and lo == hi and 0 <= ilo < len(vals):
                v = vals[ilo] & ((1 << ebits) - 1)
                if v >= 1 << (ebits - 1):
                    v -= 1 << ebits
                is_load = (v == lo)
            if not is_load:
                why = "result %s is not the value loaded from %s[%s]" % (r.lin, gname, idx)
            elif not (0 <= ilo and ihi <= 360):
                why = "index range [%d,%d]" % (ilo, ihi)
            else:
                # (A) remainder symbols replaced by their base forms
                cong = subst_rem(an, idx, 360).sub(d)
                if cong.is_const() and not isinstance(cong.c, Fraction) and cong.c % 360 == 0:
                    ok = True
                else:
                    # (B) eliminate d through a remainder symbol of the path: base = sigma*d + c == s (mod 360)
                    for s_ in list(st.bounds):
                        ta = term_args(s_) if isinstance(s_, str) else None
                        if ta is None or ta[0] != "rem+" or ta[2] != 360:
                            continue
                        cn, dd, items = ta[1]
                        base = Lin(cn, dict(items), dd)
                        if dd != 1 or set(base.t) != {"p0"} or abs(base.t["p0"]) != 1:
                            continue
                        sigma = base.t["p0"]
                        dform = Lin.sym(s_).addc(-base.cn).scale(sigma)     # d == sigma*(s - c) (mod 360)
                        a, z = st.rng_lin_int(idx.sub(dform))
                        if a == z and a % 360 == 0:
                            ok = True
                            break
                    if not ok:
                        why = "index %s (range [%d,%d]) is not congruent to d modulo 360" % (idx, ilo, ihi)
        V.oblige(ok)
        if not ok:
            import random
            esz, ebits, vals, gsz = an.flat_global(gname)

            def bad(a, o):
                dd = a[0]
                if o[0] != "ret":
                    return True
                i = dd if 0 <= dd <= 360 else dd % 360
                return o[1] != vals[i] and o[1] != vals[dd % 360]
            args, out = lib.search(run, p.state, bad, random.Random(V.seed))
            if args is not None:
                V.violation("index mapping d -> d mod 360", fn, "%s(%d) [%s]: %s; %s" % (fn, args[0], run.ctx.config, lib.out_str(out), why),
                            lib.rp(run, args, "result is the table entry for d mod 360"))
            else:
                V.inconc("%s: %s on path %s" % (fn, why, lib.describe_path(p)))
    for a in run.alarms:
        if a.status == "violation":
            V.oblige(False)
            V.violation(a.kind, a.site, "%s in %s(%s) at %s" % (a.kind, run.name, a.witness, a.where), lib.rp(run, a.witness, a.kind))
        elif a.status == "inconclusive":
            V.inconc("%s: %s at %s unresolved" % (run.name, a.kind, a.where))


def run(tier, seed):
    V = common.Verdict("C19", tier, seed)
    configs = ["K17", "K20"] if tier == "quick" else ["K17", "K20"]
    nlit = 0
    cells = {}
    for cfg in configs:
        try:
            ctx = lib.Ctx(cfg, [])
            rs = ctx.run("w_sin_angle_aprox")
            nlit += check_tables(V, rs)
            check_index(V, rs, TABLES["sin"][0], "sin_angle_aprox")
            check_index(V, ctx.run("w_cos_angle_aprox"), TABLES["cos"][0], "cos_angle_aprox")
            # sqrt_aprox: 0 at 0, NaN below 0, no out-of-bounds index
            r = ctx.run("w_sqrt_aprox", [ANYFX])
            x = sym(0)
            lib.check_regions(V, r, [("x==0", [(x, 0, 0)], ("const", 0)), ("x<0", [(x, None, -1)], ("const", M)),
                                     ("x>0", [(x, 1, None)], ("range", 0, 1 << 62))],
                              lambda a, o: (a[0] == 0 and o != ("ret", 0)) or (a[0] < 0 and o != ("ret", M)) or o[0] != "ret",
                              "sqrt_aprox(0)==0, NaN below 0, non-negative above", site="sqrt_aprox")
            r = ctx.run("w_atan_index_aprox", [FIN])
            lib.check_regions(V, r, [("all", [], ("range", -128 * 65536, 128 * 65536))], lambda a, o: o[0] != "ret" or abs(o[1]) > 128 * 65536,
                              "atan_index_aprox result within [-128,128]", site="atan_index_aprox")
            cells[cfg] = {"sqrt_aprox_constant_cells": sqrt_aprox_cells(V, ctx, seed), "atan_index_constant_paths": atan_index_cells(V, ctx, seed)}
        except Broken as e:
            V.broke("%s: %s" % (cfg, e))
    if nlit < 1233 * len(configs):
        V.broke("only %d table literals checked (expected %d per configuration)" % (nlit, 1233))
    expl = ("DECIDED: all 1233 checked literals of the four generated tables (read from the initialisers in the linked IR of fixed_math.cc) "
            "against a rigorous big-integer interval oracle (pi by Machin's formula, Taylor series with remainder, 256 fractional bits): "
            "sine/cosine within 2 ulp of sin/cos(i deg), tangent (i != 128) within 2 ulp*(1+tan^2), square-root entries within 1 of "
            "65536*sqrt(i/256+31/2^18); array extents 361/361/256/256; sin_angle_aprox/cos_angle_aprox for EVERY int32 d: the result is the "
            "value-numbered load table[i] with i congruent to d modulo 360 and 0 <= i <= 360 on all paths (hence within 2 ulp of sin/cos(d deg) "
            "by periodicity); sqrt_aprox(0)==0, NaN for x<0, result >= 0, table index in bounds; atan_index_aprox within [-128,128] and all "
            "binary-search probes in bounds. sqrt_aprox 2 %: the domain 2^-16 <= x < 2^21 is partitioned into the ~3000 cells (bit-length "
            "class x table index) on which the analyser returns one constant R; per cell 0.98*256*sqrt(b) <= R <= 1.02*256*sqrt(a) is an "
            "exact integer comparison of squares, and a failing end point is itself a concrete counter-example. atan_index_aprox 1.25: each "
            "of the 513 binary-search paths returns one constant on an interval of arguments; atan is monotone, so the bound is decided at "
            "the two end points with the interval oracle. Every clause of C19 is decided.")
    return V.finish("proof", expl, "./fx check C19 --tier %s" % tier, extra={"configs": configs, "literals_checked": nlit, "exhaustive": True, "cells": cells})


# ------------------------------------------------------------------ numeric clauses decided cell by cell
def sqrt_aprox_cells(V, ctx, seed):
    """sqrt_aprox relative error <= 2 % for 2^-16 <= x < 2^21: the domain is partitioned into the cells on which the
    result is one constant (bit-length class x table index); per cell the bound is an exact rational comparison."""
    from fxai import pipeline as P
    r = ctx.run("w_sqrt_aprox", [("i", 1, (1 << 37) - 1)])
    an = r.an
    gname = TABLES["sqrt"][0]
    ncell = 0
    bad = None
    for p in r.paths:
        st = p.state
        lo, hi = st.bounds["p0"]
        loads = [n for n in st.notes if n[0] == "load" and n[1] == gname]
        if len(loads) != 1:
            V.inconc("w_sqrt_aprox: %d table loads on a path" % len(loads))
            continue
        idx = loads[0][2]
        ilo, ihi = st.rng_lin_int(idx)
        # idx = (raw - lowbits) / 2^cl : the denominator of the index form is the shift
        step = idx.d
        if set(idx.t) - {"p0"} and not all(isinstance(k, str) for k in idx.t):
            pass
        # the cells [i*step, i*step+step-1] must tile the path's box: otherwise the index is not floor(raw/step)
        covered = 0
        for i in range(ilo, ihi + 1):
            a = max(lo, i * step)
            b = min(hi, i * step + step - 1)
            if a <= b:
                covered += b - a + 1
        if covered != hi - lo + 1 or ihi - ilo > 100000:
            V.oblige(False)
            # generic fall-back: bisect the box until the result is a single constant
            stack = [(lo, hi)]
            budget = 20000
            while stack and budget > 0:
                a, b = stack.pop()
                budget -= 1
                rs = an.run(P.init_state(an.fn, [("i", a, b)]))
                vals = set(lib.ret_rng(q) for q in rs.paths)
                if len(vals) == 1 and next(iter(vals))[0] == next(iter(vals))[1] and not rs.alarms:
                    Rv = next(iter(vals))[0]
                    ncell += 1
                    okc = Rv >= 0 and Rv * Rv * 2500 >= 2401 * 65536 * b and Rv * Rv * 2500 <= 2601 * 65536 * a
                    if not okc and bad is None:
                        raw = b if not (Rv >= 0 and Rv * Rv * 2500 >= 2401 * 65536 * b) else a
                        bad = (raw, Rv, -1, (a, b))
                    if not okc:
                        break
                elif a < b:
                    mid = (a + b) // 2
                    stack.append((a, mid))
                    stack.append((mid + 1, b))
            if bad is None:
                V.inconc("w_sqrt_aprox: table index %s does not partition the box [%d,%d] into cells of %d raw values and the bisection "
                         "fall-back found no violating cell within its budget" % (idx, lo, hi, step))
            continue
        for i in range(ilo, ihi + 1):
            a = max(lo, i * step)
            b = min(hi, i * step + step - 1)
            if a > b:
                continue
            rs = an.run(P.init_state(an.fn, [("i", a, b)]))
            vals = set(lib.ret_rng(q) for q in rs.paths)
            if len(vals) != 1 or next(iter(vals))[0] != next(iter(vals))[1] or rs.alarms:
                V.oblige(False)
                V.inconc("w_sqrt_aprox: result is not a single constant on the cell raw in [%d,%d] (index %d)" % (a, b, i))
                continue
            R = next(iter(vals))[0]
            ncell += 1
            # 0.98*256*sqrt(b) <= R <= 1.02*256*sqrt(a)   <=>   R^2 * 2500 >= 2401 * 65536 * b   and   R^2 * 2500 <= 2601 * 65536 * a
            ok_lo = R >= 0 and R * R * 2500 >= 2401 * 65536 * b
            ok_hi = R * R * 2500 <= 2601 * 65536 * a
            V.oblige(ok_lo and ok_hi)
            if not (ok_lo and ok_hi) and bad is None:
                raw = b if not ok_lo else a
                bad = (raw, R, i, (a, b))
            if ncell in (1, 500, 2500) and len(V.samples) < 14:
                V.sample({"function": "sqrt_aprox", "cell_raw": [a, b], "table_index": i, "result_raw": R, "within_2_percent": ok_lo and ok_hi})
    if bad is not None:
        raw, R, i, cell = bad
        import math
        V.violation("sqrt_aprox relative error <= 2%", "sqrt_aprox", "sqrt_aprox(raw %d) [%s] = raw %d on the whole cell %s (table index %d) but 256*sqrt(raw) = %.1f: "
                    "relative error %.2f%%" % (raw, ctx.config, R, cell, i, 256 * math.sqrt(raw), 100 * abs(R - 256 * math.sqrt(raw)) / (256 * math.sqrt(raw))),
                    lib.rp(r, (raw,), "relative error <= 2%"))
    if ncell < 1200:
        V.broke("sqrt_aprox: only %d constant cells (expected about 1500)" % ncell)
    return ncell


def atan_index_cells(V, ctx, seed):
    """atan_index_aprox within 1.25 of atan(x)*128/pi for |x| < 2^31: the argument space is cut at every end point of a path box
    of the whole-domain analysis (hints only: a box may be wider than the path's domain); each cell is analysed on its own and must
    return one constant (otherwise it is bisected); atan is monotone, so the bound is checked at the two ends of the cell with the
    interval oracle - an end that fails is a concrete counter-example, because the whole cell returns that constant."""
    from fxai import pipeline as P
    T47 = (1 << 47) - 1
    r = ctx.run("w_atan_index_aprox", [("i", -T47, T47)])
    an = r.an
    pi = R.pi()
    pts = {-T47, T47 + 1}
    for p in r.paths:
        lo, hi = p.state.bounds["p0"]
        pts.add(max(lo, -T47))
        pts.add(min(hi, T47) + 1)
    pts = sorted(pts)
    work = [(a, b - 1) for a, b in zip(pts, pts[1:]) if a <= b - 1]
    work.reverse()
    n = 0
    reported = False
    budget = 20000
    while work:
        a, b = work.pop()
        budget -= 1
        if budget < 0:
            V.oblige(False)
            V.inconc("atan_index_aprox: cell budget exhausted at [%d,%d]" % (a, b))
            break
        rs = an.run(P.init_state(an.fn, [("i", a, b)]))
        vals = set(lib.ret_rng(q) for q in rs.paths)
        if rs.alarms:
            V.oblige(False)
            V.inconc("w_atan_index_aprox: alarm on the cell [%d,%d]" % (a, b))
            continue
        if len(vals) != 1 or next(iter(vals))[0] != next(iter(vals))[1]:
            if a == b:
                V.oblige(False)
                V.inconc("w_atan_index_aprox: no single constant at the argument %d" % a)
                continue
            m = (a + b) // 2
            work.append((m + 1, b))
            work.append((a, m))
            continue
        rl = next(iter(vals))[0]
        n += 1
        for raw in (a, b):
            if raw == 0:
                t = (0, 0)
            else:
                t = R.atan_iv(R.iv(Fraction(raw, 65536)))
            true_idx = R.div(R.scale_int(t, 128), pi)          # atan(x)*128/pi
            got = R.iv(Fraction(rl, 65536))
            d = R.sub(got, true_idx)
            worst = max(abs(d[0]), abs(d[1]))
            best = 0 if d[0] <= 0 <= d[1] else min(abs(d[0]), abs(d[1]))
            lim = R.iv(Fraction(5, 4))
            if worst <= lim[0]:
                V.oblige(True)
            elif best > lim[1]:
                V.oblige(False)
                if not reported:
                    reported = True
                    V.violation("atan_index_aprox within 1.25 of atan(x)*128/pi", "atan_index_aprox",
                                "atan_index_aprox(raw %d) [%s] = %.4f (on the whole cell [%d,%d]) but atan(x)*128/pi = %.4f" % (
                                    raw, ctx.config, rl / 65536.0, a, b, float(R.to_frac(true_idx)[0])), lib.rp(r, (raw,), "within 1.25"))
            else:
                V.oblige(False)
                V.inconc("atan_index_aprox(raw %d): error within 2^-200 of the bound" % raw)
            if a == b:
                break
    if n < 400:
        V.broke("atan_index_aprox: only %d constant cells" % n)
    return n
