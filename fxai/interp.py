"""fxai: path-sensitive abstract interpreter over fully inlined LLVM IR.

Values: every integer is a linear form over symbols; a symbol is either an input
parameter or the hash of the (non-linear) term that defines it, so equal terms
share one symbol (value numbering).  Paths are never merged except at loop heads.
"""
from fractions import Fraction
import math
import struct
from .lin import Lin, T
from .state import (State, PList, IntV, BoolV, FpV, PtrV, AggV, Split, Infeasible, pred_key, fl, cl, INF)
from . import ir as IR


class Broken(Exception):
    """analysis cannot proceed soundly (unsupported construct / budget) -> exit 2"""
    pass


UBSAN_KIND = {0: "add-overflow", 1: "builtin-unreachable", 2: "cfi", 3: "divrem-overflow", 4: "dynamic-type-cache-miss",
              5: "float-cast-overflow", 6: "function-type-mismatch", 7: "implicit-conversion", 8: "invalid-builtin",
              9: "invalid-objc-cast", 10: "load-invalid-value", 11: "missing-return", 12: "mul-overflow",
              13: "negate-overflow", 14: "nullability-arg", 15: "nullability-return", 16: "nonnull-arg",
              17: "nonnull-return", 18: "out-of-bounds", 19: "pointer-overflow", 20: "shift-out-of-bounds",
              21: "sub-overflow", 22: "type-mismatch", 23: "alignment-assumption", 24: "vla-bound"}


# libm entry points accepted as opaque functions: name -> guaranteed result range (NaN always possible)
LIBM = {"sin": (-1.0, 1.0), "cos": (-1.0, 1.0), "tan": (-INF, INF), "atan": (-1.5707963267948968, 1.5707963267948968),
        "atan2": (-3.1415926535897936, 3.1415926535897936), "asin": (-1.5707963267948968, 1.5707963267948968),
        "acos": (0.0, 3.1415926535897936), "hypot": (0.0, INF), "floor": (-INF, INF), "ceil": (-INF, INF),
        "round": (-INF, INF), "trunc": (-INF, INF), "fabs": (0.0, INF), "exp": (0.0, INF), "log": (-INF, INF),
        "pow": (-INF, INF), "fmod": (-INF, INF), "cbrt": (-INF, INF),
        "sinf": (-1.0, 1.0), "cosf": (-1.0, 1.0), "tanf": (-INF, INF), "atanf": (-1.5707964, 1.5707964),
        "atan2f": (-3.1415928, 3.1415928), "hypotf": (0.0, INF), "sqrtf": (0.0, INF), "fabsf": (0.0, INF)}


class Alarm:
    def __init__(self, kind, chain, line, state, detail=""):
        self.kind = kind
        self.chain = chain          # [(fn, file, line)] innermost first
        self.line = line            # IR line of the trap / faulting instruction
        self.state = state
        self.detail = detail
        self.witness = None
        self.status = "alarm"       # alarm | violation | inconclusive | discharged

    def site_key(self):
        """inline chain from the faulting op up to the first public (non-detail) function, names only"""
        names = []
        for ent in self.chain[:-1] if len(self.chain) > 1 else self.chain:
            fn = ent[0]
            base = fn.split("<")[0]
            names.append(base)
            if len(ent) > 3 and not ent[3]:
                break
        return "<-".join(names)

    def where(self):
        if not self.chain:
            return "?"
        fn, f, ln = self.chain[0][:3]
        return "%s:%d (%s)" % (f, ln, fn)


class PathSummary:
    def __init__(self, state, ret, mono=None):
        self.state = state
        self.ret = ret
        self.mono = mono      # direction of the returned value in parameter 0 on this path (+1, -1, 0) or None (not established)


class Result:
    def __init__(self):
        self.paths = []
        self.alarms = []
        self.stats = {"states": 0, "steps": 0, "forks": 0, "trap_edges": 0, "trap_edges_dead": 0,
                      "loads": 0, "loads_inbounds": 0, "joins": 0, "infeasible": 0}
        self.trap_sites_seen = set()
        self.dropped_wraps = []
        self.dropped_notes = []
        self.stopped = []         # states handed back by Analyzer.stop_hook instead of being continued


def tz_of(x):
    if x == 0:
        return 64
    return (x & -x).bit_length() - 1


def sgn_rng(w):
    return -(1 << (w - 1)), (1 << (w - 1)) - 1


def f32round(x):
    try:
        return struct.unpack("<f", struct.pack("<f", x))[0]
    except OverflowError:
        return INF if x > 0 else -INF


def nxt(x, up, kind):
    if kind == "float":
        # one binary32 ulp outward
        if math.isinf(x):
            return x
        y = f32round(x)
        b = struct.unpack("<i", struct.pack("<f", y))[0]
        if y == 0.0:
            return 1.401298464324817e-45 if up else -1.401298464324817e-45
        if (y > 0) == up:
            b += 1
        else:
            b -= 1
        return struct.unpack("<f", struct.pack("<i", b))[0]
    return math.nextafter(x, INF if up else -INF)


def rn_exact(fr, kind):
    """the binary32 / binary64 value nearest to the finite rational fr (ties to even), as a Python float; None outside the
    normal range (the caller falls back to outward widening)"""
    if fr == 0:
        return 0.0
    prec, emin, emax = (24, -126, 127) if kind == "float" else (53, -1022, 1023)
    sign = -1 if fr < 0 else 1
    a = abs(fr)
    e = a.numerator.bit_length() - a.denominator.bit_length()
    if Fraction(2) ** e > a:
        e -= 1
    if e < emin or e > emax - 1:
        return None
    q = a / (Fraction(2) ** (e - prec + 1))
    n = q.numerator // q.denominator
    rem = q - n
    if rem > Fraction(1, 2) or (rem == Fraction(1, 2) and n % 2 == 1):
        n += 1
    return sign * float(Fraction(n) * Fraction(2) ** (e - prec + 1))


class Analyzer:
    def __init__(self, mod, fn, join_threshold=300, max_states=400000, max_iter=80, early_join=8):
        self.early_join = early_join
        self.stop_hook = None     # optional predicate on a state arriving at a block: collect it in Result.stopped and do not continue
        self.isqrt_spec = {}      # loop head -> verified integer-square-root summary (fxai.isqrt.prepare); applied at first arrival
        self.partition = {}
        self.symdeps = {}
        self.fp80src = {}
        self.symdef = {}
        self.lowbits_canon = False
        self.partition_ops = ()
        self.mod = mod
        self.fn = IR.materialize(fn, mod)
        self.join_threshold = join_threshold
        self.max_states = max_states
        self.max_iter = max_iter
        self.trap_blocks = {}
        for bn, b in self.fn.blocks.items():
            for i in b.insts:
                if i.op == "call" and i.ops[0] == "llvm.ubsantrap":
                    self.trap_blocks[bn] = i
        self.trap_blocks_pre = set(self.trap_blocks)
        # integer constants the function compares against (used only to seed witness candidates)
        cs = set()
        for b in self.fn.blocks.values():
            for i in b.insts:
                if i.op == "icmp" or i.op in ("srem", "sdiv", "urem", "udiv"):
                    for o in i.ops:
                        if isinstance(o, IR.Operand) and o.kind == "int" and abs(o.val) > 2 and abs(o.val) < (1 << 62):
                            cs.add(o.val)
        self.cmp_consts = sorted(cs)[:200]
        self._find_loops()
        self.gsize = {}

    # ------------------------------------------------------------ CFG
    def _succ(self, b):
        t = b.insts[-1]
        if t.op == "br":
            return [t.ops[0]]
        if t.op == "condbr":
            return [t.ops[1], t.ops[2]]
        if t.op == "switch":
            return [t.ops[1]] + [l for _, l in t.ops[2]]
        return []

    def _find_loops(self):
        fn = self.fn
        self.back_edges = set()
        color = {}
        entry = fn.order[0]
        stack = [(entry, iter(self._succ(fn.blocks[entry])))]
        color[entry] = 1
        while stack:
            n, it = stack[-1]
            adv = False
            for s in it:
                c = color.get(s, 0)
                if c == 0:
                    color[s] = 1
                    stack.append((s, iter(self._succ(fn.blocks[s]))))
                    adv = True
                    break
                elif c == 1:
                    self.back_edges.add((n, s))
            if not adv:
                color[n] = 2
                stack.pop()
        self.loop_heads = {h for _, h in self.back_edges}
        self._liveness()
        self._loop_control()

    def _loop_control(self):
        """for each loop head: the head phis on which an exit condition of the loop depends"""
        fn = self.fn
        self.ctrl_phis = {}
        self.loop_sig = {}
        self.loop_reads = {}
        self.head_phis = {}
        defs = {}
        for bn, b in fn.blocks.items():
            for i in b.insts:
                if i.res is not None:
                    defs[i.res] = (bn, i)
        for h in self.loop_heads:
            body = {h}
            work = [n for (n, hh) in self.back_edges if hh == h]
            while work:
                n = work.pop()
                if n in body:
                    continue
                body.add(n)
                work.extend(self.preds[n])
            roots = []
            for bn in body:
                t = fn.blocks[bn].insts[-1]
                if t.op == "condbr":
                    outside = [x for x in (t.ops[1], t.ops[2]) if x not in body and x not in self.trap_blocks_pre]
                    if outside:
                        roots.extend(self._uses(t))
                elif t.op == "switch":
                    roots.extend(self._uses(t))
            seen = set()
            ctrl = set()
            while roots:
                n = roots.pop()
                if n in seen:
                    continue
                seen.add(n)
                d = defs.get(n)
                if d is None:
                    continue
                bn, i = d
                if bn not in body:
                    continue
                if i.op == "phi":
                    if bn == h:
                        ctrl.add(n)
                        continue
                    for v, lab in i.ops:
                        if v.kind == "reg":
                            roots.append(v.val)
                    continue
                roots.extend(self._uses(i))
            self.ctrl_phis[h] = ctrl
            sig = []
            for bn in fn.order:
                if bn in body:
                    for i in fn.blocks[bn].insts:
                        d = self.mod.md.get(i.dbg) if i.dbg is not None else None
                        sig.append((i.op, d.get("line") if d else None, i.ops[0] if i.op == "call" else None,
                                    tuple(sorted(i.attrs)) if i.op in ("icmp", "fcmp") else None))
            self.loop_sig[h] = T("loop", tuple(sig))
            reads = set()
            for bn in body:
                for i in fn.blocks[bn].insts:
                    for n_ in (self._uses(i) if i.op != "phi" else [v.val for v, lab in i.ops if v.kind == "reg" and lab in body]):
                        d_ = defs.get(n_)
                        if d_ is None or d_[0] not in body:
                            reads.add(n_)
            self.loop_reads[h] = reads
            self.head_phis[h] = [i.res for i in fn.blocks[h].insts if i.op == "phi"]

    @staticmethod
    def _uses(inst):
        out = []

        def op(o):
            if isinstance(o, IR.Operand):
                if o.kind == "reg":
                    out.append(o.val)
                elif o.kind == "gepconst":
                    op(o.val[1])
                    for x in o.val[2]:
                        op(x)
                elif o.kind in ("bitcast", "p2iconst"):
                    op(o.val)
        if inst.op == "phi":
            return out
        for o in inst.ops:
            op(o)
        return out

    def _liveness(self):
        fn = self.fn
        preds = {b: [] for b in fn.blocks}
        for bn, b in fn.blocks.items():
            for s in self._succ(b):
                preds[s].append(bn)
        self.preds = preds
        use = {}
        defs = {}
        phi_defs = {}
        phi_uses = {b: {} for b in fn.blocks}   # pred -> set of names used by phis in successor
        for bn, b in fn.blocks.items():
            u = set()
            d = set()
            pd = set()
            for i in b.insts:
                if i.op == "phi":
                    pd.add(i.res)
                    for v, lab in i.ops:
                        if v.kind == "reg":
                            phi_uses[bn].setdefault(lab, set()).add(v.val)
                    continue
                for n in self._uses(i):
                    if n not in d:
                        u.add(n)       # includes names defined by this block's own phis: they are live after the phis
                if i.res is not None:
                    d.add(i.res)
            use[bn] = u
            defs[bn] = d
            phi_defs[bn] = pd
        live_after_phi = {b: set(use[b]) for b in fn.blocks}
        live_out = {b: set() for b in fn.blocks}
        changed = True
        while changed:
            changed = False
            for bn in reversed(fn.order):
                b = fn.blocks[bn]
                lo = set()
                for s in self._succ(b):
                    lo |= (live_after_phi[s] - phi_defs[s]) | phi_uses[s].get(bn, set())
                    # phi results that are live after the phis are defined by the phis themselves
                la = use[bn] | (lo - defs[bn])
                if lo != live_out[bn] or la != live_after_phi[bn]:
                    live_out[bn] = lo
                    live_after_phi[bn] = la
                    changed = True
        self.live_after_phi = live_after_phi
        self.merge_blocks = {b for b, p in preds.items() if len(p) >= 2}

    def vsig(self, st, v):
        if isinstance(v, IntV):
            return ("i", v.w, v.lin.key(), st.rng(v), v.pbase)
        if isinstance(v, BoolV):
            return ("b", v.tv, None if v.tv is not None else pred_key(v.pred))
        if isinstance(v, FpV):
            return ("f", v.term, self.frng(st, v), None if v.xlin is None else v.xlin.key())
        if isinstance(v, PtrV):
            return ("p", v.glob, v.off.lin.key(), st.rng(v.off))
        if isinstance(v, AggV):
            return ("a",) + tuple(self.vsig(st, f) for f in v.fields)
        return ("?", id(v))

    def signature(self, st):
        live = self.live_after_phi[st.block]
        items = []
        syms = set(k for k in st.bounds if isinstance(k, str) and k[0] == "p")
        for n in sorted(live):
            v = st.env.get(n)
            if v is None:
                continue
            items.append((n, self.vsig(st, v)))
            if isinstance(v, IntV):
                syms.update(v.lin.t)
            elif isinstance(v, PtrV):
                syms.update(v.off.lin.t)
        for nk in st.cons:
            for y, _ in nk:
                syms.add(y)
        b = tuple(sorted((y, st.bounds[y]) for y in syms))
        c = tuple(sorted(st.cons.items(), key=repr))
        f = tuple(sorted((k, v) for k, v in st.fb.items() if k[0] == "f" and k[1:].isdigit()))
        return (st.block, tuple(items), b, c, f, st.tag, tuple(sorted(st.iters.items())))

    # ------------------------------------------------------------ values
    def cint(self, w, v):
        if w == 1:
            return BoolV(bool(v & 1))
        lo, hi = sgn_rng(w)
        v &= (1 << w) - 1
        if v > hi:
            v -= 1 << w
        return IntV(w, Lin.const(v), v, v, tz=tz_of(v))

    def cfp(self, kind, v):
        if isinstance(v, tuple):  # fp80 exact rational
            fr = v[1]
            x = float(fr)
            return FpV("x86_fp80", x, x, False, T("cfp80", str(fr)), xlin=Lin.const(fr))
        if v != v:
            return FpV(kind, INF, -INF, True, T("cfp", kind, "nan"))
        xl = None
        if not math.isinf(v):
            xl = Lin.const(Fraction(v))
        return FpV(kind, v, v, False, T("cfp", repr(v)), xlin=xl)

    def val(self, st, o):
        k = o.kind
        if k == "reg":
            try:
                return st.env[o.val]
            except KeyError:
                raise Broken("use of undefined value %%%s" % o.val)
        ty = IR.resolve(o.ty, self.mod) if o.ty.kind == "named" else o.ty
        if k == "int":
            return self.cint(ty.bits, o.val)
        if k == "fp":
            return self.cfp(ty.kind, o.val)
        if k == "global":
            return PtrV(o.val, self.cint(64, 0))
        if k == "gepconst":
            bty, base, idx = o.val
            p = self.val(st, base)
            return self.gep(st, p, bty, [self.val(st, i) for i in idx])
        if k == "bitcast":
            return self.val(st, o.val)
        if k == "p2iconst":
            p = self.val(st, o.val)
            if not isinstance(p, PtrV):
                raise Broken("ptrtoint of non-pointer constant")
            return IntV(64, p.off.lin, p.off.lo, p.off.hi, 0, None, p.glob or "null")
        if k == "null":
            return PtrV(None, self.cint(64, 0))
        raise Broken("operand kind %s" % k)

    def mk(self, st, w, lin, tz=0, pred=None, pbase=None, clip=False):
        lo, hi = st.rng_lin_int(lin)
        tlo, thi = sgn_rng(w)
        if lo < tlo or hi > thi:
            if clip:
                lo = max(lo, tlo)
                hi = min(hi, thi)
            elif pbase is None:
                raise Broken("internal: value range [%d,%d] escapes i%d for %r" % (lo, hi, w, lin))
        if lo > hi:
            raise Infeasible()
        if lin.is_const():
            tz = max(tz, tz_of(lin.c)) if not isinstance(lin.c, Fraction) else tz
        return IntV(w, lin, lo, hi, tz, pred, pbase)

    def pmint(self, st, term, lo, hi, deps=()):
        """mint a symbol; record what it depends on; apply a requested value partition"""
        s = st.mint(term, lo, hi)
        if term not in self.symdeps:
            d = set()
            for x in deps:
                d.update(x.t)
            self.symdeps[term] = d
        if term not in self.partition and self.partition_ops and term not in st.parted:
            from .lin import term_args as _ta
            ta_ = _ta(term)
            if ta_ is not None and ta_[0] in self.partition_ops:
                a_, z_ = st.bounds[s]
                if z_ - a_ > 4096:
                    cases = self.classes(Lin.sym(s), a_, z_, term)
                    if len(cases) > 1:
                        raise Split(cases, "partition-op")
                st.parted = st.parted | {term}
        if term in self.partition and term not in st.parted:
            a, z = st.bounds[s]
            cases = self.classes(Lin.sym(s), a, z, term)
            if len(cases) > 1:
                raise Split(cases, "partition")
            st.parted = st.parted | {term}
        return s

    def classes(self, lin, lo, hi, term):
        """sign / bit-length classes of [lo,hi] as Split cases"""
        pts = {lo, hi + 1, 0, 1}
        k = 0
        while k < 127:
            e = 1 << k
            if lo < e <= hi:
                pts.add(e)
            if lo < -e + 1 <= hi:
                pts.add(-e + 1)
            k += 1
        pts = sorted(pts)
        cases = []
        for a, z in zip(pts, pts[1:]):
            if lo <= a and z - 1 <= hi and a <= z - 1:
                cases.append([("lin", lin, a, z - 1), ("parted", term)])
        return cases

    def fresh(self, st, w, term, lo, hi, tz=0, pred=None, deps=()):
        tlo, thi = sgn_rng(w)
        lo = max(lo, tlo)
        hi = min(hi, thi)
        if lo > hi:
            raise Infeasible()
        if lo == hi:
            return self.cint(w, lo)
        s = self.pmint(st, term, lo, hi, deps)
        a, z = st.bounds[s]
        return IntV(w, Lin.sym(s), a, z, tz, pred)

    def wrapfit(self, st, w, exact, kind, inst, tz=0, opn=None):
        lo, hi = st.rng_lin_int(exact)
        H = 1 << (w - 1)
        M = 1 << w
        klo = (lo + H) >> w
        khi = (hi + H) >> w
        if klo == khi:
            if klo != 0 or True:
                st.wraps.append((inst.line, kind, klo, opn, lo, hi))
            return self.mk(st, w, exact.addc(-klo * M), tz)
        if khi - klo <= 3:
            raise Split([[("lin", exact, k * M - H, k * M + H - 1)] for k in range(klo, khi + 1)], "wrap")
        st.wraps.append((inst.line, kind, None, opn, lo, hi))
        r = self.fresh(st, w, T(kind + ".wrap", w, exact.key()), -H, H - 1, tz, deps=(exact,))
        r.mlin = exact
        return r

    def as_int(self, st, v, w=None):
        """IntV view of a value (BoolV -> 0/1 unsigned)"""
        if isinstance(v, IntV):
            return v
        if isinstance(v, BoolV):
            if v.tv is not None:
                return IntV(1, Lin.const(1 if v.tv else 0), int(v.tv), int(v.tv))
            s = st.mint(T("bool", pred_key(v.pred)), 0, 1)
            a, z = st.bounds[s]
            return IntV(1, Lin.sym(s), a, z, 0, v.pred)
        raise Broken("expected integer value, got %r" % (v,))

    # unsigned view: returns lin of the unsigned value; splits on sign when needed
    def uview(self, st, v):
        lo, hi = st.rng(v)
        if lo >= 0:
            return v.lin, lo, hi
        if hi < 0:
            M = 1 << v.w
            return v.lin.addc(M), lo + M, hi + M
        raise Split([[("lin", v.lin, None, -1)], [("lin", v.lin, 0, None)]], "view")

    # low k bits of two's complement representation, as a Lin (value in [0,2^k))
    def lowbits(self, st, v, k):
        if k <= 0:
            return Lin.const(0), 0, 0
        if k >= v.w:
            ul, lo, hi = self.uview(st, v)
            return ul, lo, hi
        if v.tz >= k:
            return Lin.const(0), 0, 0
        if v.mlin is not None and k <= v.w:
            # the low k bits of the wrapped value are those of the exact (unwrapped) form
            v = IntV(v.w + 200, v.mlin, *st.rng_lin_int(v.mlin), v.tz)
        lo, hi = st.rng(v)
        P = 1 << k
        jlo = lo >> k
        jhi = hi >> k
        if jlo == jhi:
            l = v.lin.addc(-jlo * P)
            return l, lo - jlo * P, hi - jhi * P
        if jhi - jlo <= 1 and (k >= v.w - 1):
            raise Split([[("lin", v.lin, None, jhi * P - 1)], [("lin", v.lin, jhi * P, None)]], "lowbits")
        L = v.lin
        if L.d == 1:
            # part that is a multiple of 2^k does not matter; constant and sign are canonicalised so that
            # lowbits(L + c), lowbits(-L) and lowbits(L) share one symbol
            rest = {s_: c_ for s_, c_ in L.t.items() if c_ % P}
            if not rest:
                c0 = L.cn % P
                return Lin.const(c0), c0, c0
            L0 = Lin(0, rest, 1, True)
            sg, L0 = self.canon(L0)
            c = L.cn % P
            b_lo, b_hi = st.rng_lin_int(L0)
            j0lo, j0hi = b_lo >> k, b_hi >> k
            if j0lo == j0hi:
                r0 = L0.addc(-j0lo * P)
            else:
                s0 = self.pmint(st, T("lowbits", L0.key(), k), 0, P - 1, (L0,))
                st.constrain(L0.sub(Lin.sym(s0)), j0lo * P, j0hi * P, mod=P)
                r0 = Lin.sym(s0)
            # low bits of  sg*L0 + c  in terms of r0 = lowbits(L0)
            t = r0.addc(c) if sg > 0 else r0.neg().addc(c)
            tlo, thi = st.rng_lin_int(t)
            q0, q1 = tlo >> k, thi >> k
            if q0 == q1:
                t = t.addc(-q0 * P)
                return t, tlo - q0 * P, thi - q0 * P
            if self.lowbits_canon:
                raise Split([[("lin", t, q * P, q * P + P - 1)] for q in range(q0, q1 + 1)], "lowbits-carry")
            # otherwise: a symbol of its own for this form (no case split, less sharing)
        s = self.pmint(st, T("lowbits", v.lin.key(), k), 0, P - 1, (v.lin,))
        # relational fact: v - lowbits = 2^k * floor(v / 2^k), and the quotient lies in [jlo, jhi]
        st.constrain(v.lin.sub(Lin.sym(s)), jlo * P, jhi * P)
        a, z = st.bounds[s]
        return Lin.sym(s), a, z

    # ------------------------------------------------------------ refinement
    def refine(self, st, pred, truth):
        """returns list of alternative refinement lists (DNF) implementing pred == truth"""
        k = pred[0]
        if k == "const":
            return [[]] if pred[1] == truth else []
        if k == "not":
            return self.refine(st, pred[1], not truth)
        if k == "and" or k == "or":
            conj = (k == "and") == truth
            # and true / or false: both sides
            if conj:
                out = []
                for a in self.refine(st, pred[1], truth):
                    for b in self.refine(st, pred[2], truth):
                        out.append(a + b)
                return out
            # and false: (P false) or (P true and Q false)
            out = []
            for a in self.refine(st, pred[1], truth):
                out.append(a)
            for a in self.refine(st, pred[1], not truth):
                for b in self.refine(st, pred[2], truth):
                    out.append(a + b)
            return out
        if k == "lin":
            _, lin, lo, hi = pred
            if truth:
                return [[("lin", lin, lo, hi)]]
            out = []
            if lo is not None:
                out.append([("lin", lin, None, lo - 1)])
            if hi is not None:
                out.append([("lin", lin, hi + 1, None)])
            return out
        if k == "icmp":
            _, p, a, b = pred
            return self.refine_icmp(st, p, a, b, truth)
        if k == "fcmp":
            _, p, a, b = pred
            return self.refine_fcmp(st, p, a, b, truth)
        raise Broken("refine %r" % (pred,))

    _NEG = {"eq": "ne", "ne": "eq", "slt": "sge", "sge": "slt", "sgt": "sle", "sle": "sgt",
            "ult": "uge", "uge": "ult", "ugt": "ule", "ule": "ugt"}

    def refine_icmp(self, st, p, a, b, truth):
        if not truth:
            p = self._NEG[p]
        if p[0] == "u":
            # operands were made sign-definite when the predicate was created
            la, _, _ = self.uview(st, a)
            lb, _, _ = self.uview(st, b)
            p = "s" + p[1:]
        else:
            la, lb = a.lin, b.lin
        d = la.sub(lb)
        extra = self.quotient_rule(st, p, la, lb)
        if extra:
            base = {"slt": [("lin", d, None, -1)], "sle": [("lin", d, None, 0)], "sgt": [("lin", d, 1, None)],
                    "sge": [("lin", d, 0, None)]}.get(p)
            if base is not None:
                return [base + extra]
        if p == "eq":
            return [[("lin", d, 0, 0)]]
        if p == "ne":
            return [[("lin", d, None, -1)], [("lin", d, 1, None)]]
        if p == "slt":
            return [[("lin", d, None, -1)]]
        if p == "sle":
            return [[("lin", d, None, 0)]]
        if p == "sgt":
            return [[("lin", d, 1, None)]]
        if p == "sge":
            return [[("lin", d, 0, None)]]
        raise Broken("icmp pred " + p)

    def quotient_rule(self, st, p, la, lb):
        """x <= floor(C / y) with y > 0, x >= 0  <=>  x * y <= C   (C a constant).
        When one side of a comparison is the quotient symbol of such a division, the equivalent bound on the
        product of the other side with the divisor is added."""
        def qdef(l):
            sg = l.single()
            if sg is None or sg[1] != 1 or l.cn != 0:
                return None
            d = self.symdef.get(sg[0])
            if d is None or d[0] != "div" or not d[1].is_const():
                return None
            C = d[1].c
            if isinstance(C, Fraction) or C < 0:
                return None
            blo, bhi = st.rng_lin_int(d[2])
            if blo <= 0:
                return None
            return C, d[2]
        out = []
        qa, qb = qdef(la), qdef(lb)
        if qb is not None and qa is None:
            C, B = qb
            x = la
            rel = p
        elif qa is not None and qb is None:
            C, B = qa
            x = lb
            rel = {"slt": "sgt", "sle": "sge", "sgt": "slt", "sge": "sle"}.get(p)
        else:
            return out
        xlo, xhi = st.rng_lin_int(x)
        if xlo < 0 or rel is None:
            return out
        # rel is the relation  x rel q
        if rel == "sle":          # x <= q  <=> x*B <= C
            out.append(("prod", x, B, None, C))
        elif rel == "sgt":        # x > q   <=> x*B > C
            out.append(("prod", x, B, C + 1, None))
        elif rel == "slt":        # x < q   =>  x*B <= C - B <= C
            out.append(("prod", x, B, None, C))
        return out

    def refine_fcmp(self, st, p, a, b, truth):
        # only refine a float symbol against a constant
        def const_of(v):
            return v.lo if (v.lo == v.hi and not v.nan) else None
        flip = {"olt": "ogt", "ogt": "olt", "ole": "oge", "oge": "ole", "oeq": "oeq", "one": "one",
                "ult": "ugt", "ugt": "ult", "ule": "uge", "uge": "ule", "ueq": "ueq", "une": "une",
                "ord": "ord", "uno": "uno"}
        if a.fsym is None and b.fsym is not None:
            a, b = b, a
            p = flip[p]
        c = const_of(b)
        if a.fsym is None or c is None:
            return [[]]
        lo, hi, nan = st.fb[a.fsym]
        kind = a.kind
        ordered = p[0] == "o" and p != "ord"
        base = p[1:] if p not in ("ord", "uno") else p
        if p == "ord":
            return [[("f", a.fsym, lo, hi, not truth and nan)]] if truth else [[("f", a.fsym, INF, -INF, True)]]
        if p == "uno":
            return [[("f", a.fsym, INF, -INF, True)]] if truth else [[("f", a.fsym, lo, hi, False)]]
        # comparison holds (ordered) -> not nan and relation; fails -> nan or negated relation
        rel = base

        def withlin(r_, nanflag):
            """float range refinement plus, when the value has an exact / sign-equivalent integer form, the same fact on it"""
            out = [self._frel(a.fsym, lo, hi, r_, c, kind, nanflag)]
            if nanflag:
                return out            # the relation may fail through NaN: nothing follows for the forms
            L = None
            cc = None
            if a.xlin is not None and not math.isinf(c):
                # scale to an integer valued numerator:  xlin = N / d
                L = Lin(a.xlin.cn, a.xlin.t, 1)
                cc = Fraction(c) * a.xlin.d
            elif a.slin is not None and c == 0.0:
                L = a.slin
                cc = Fraction(0)
            if L is not None:
                if r_ == "lt":
                    out.append(("lin", L, None, cl(cc) - 1))
                elif r_ == "le":
                    out.append(("lin", L, None, fl(cc)))
                elif r_ == "gt":
                    out.append(("lin", L, fl(cc) + 1, None))
                elif r_ == "ge":
                    out.append(("lin", L, cl(cc), None))
                elif r_ == "eq" and cc.denominator == 1:
                    out.append(("lin", L, int(cc), int(cc)))
            return out
        if ordered:
            if truth:
                return [withlin(rel, False)]
            return [withlin(self._fneg(rel), nan)]
        else:
            if truth:
                return [withlin(rel, nan)]
            return [withlin(self._fneg(rel), False)]

    @staticmethod
    def _fneg(rel):
        return {"lt": "ge", "ge": "lt", "gt": "le", "le": "gt", "eq": "ne", "ne": "eq"}[rel]

    @staticmethod
    def _frel(fsym, lo, hi, rel, c, kind, nan):
        if rel == "lt":
            hi = min(hi, nxt(c, False, kind))
        elif rel == "le":
            hi = min(hi, c)
        elif rel == "gt":
            lo = max(lo, nxt(c, True, kind))
        elif rel == "ge":
            lo = max(lo, c)
        elif rel == "eq":
            lo = max(lo, c)
            hi = min(hi, c)
        return ("f", fsym, lo, hi, nan)

    def apply(self, st, refs):
        for r in refs:
            if r[0] == "lin":
                st.constrain(r[1], r[2], r[3])
            elif r[0] == "f":
                _, fs, lo, hi, nan = r
                if lo > hi and not nan:
                    raise Infeasible()
                st.fb[fs] = (lo, hi, nan)
            elif r[0] == "tag":
                st.tag = st.tag + (r[1],)
            elif r[0] == "isc":
                st.isc[r[1]] = r[2]
            elif r[0] == "src":
                st.src = r[1]
            elif r[0] == "prod":
                _, x, B, lo, hi = r
                xl, xh = st.rng_lin_int(x)
                bl, bh = st.rng_lin_int(B)
                if xl == xh or bl == bh:
                    l = B.scale(xl) if xl == xh else x.scale(bl)
                    st.constrain(l, lo, hi)
                else:
                    s_, sg = self.prod_sym(st, x, B)
                    st.constrain(Lin.sym(s_, sg), lo, hi)
            elif r[0] == "parted":
                st.parted = st.parted | {r[1]}
            else:
                raise Broken("refinement %r" % (r,))

    # ------------------------------------------------------------ GEP / memory
    def gep(self, st, p, bty, idx):
        if not isinstance(p, PtrV):
            raise Broken("gep on non-pointer")
        off = p.off.lin
        al = p.al
        ty = bty
        first = True
        from math import gcd
        for i in idx:
            i = self.as_int(st, i)
            il = i.lin
            if first:
                sz = IR.sizeof(ty, self.mod)
                off = off.add(il.scale(sz))
                al = gcd(al, sz * (abs(int(il.c)) if il.is_const() else 1))
                first = False
                continue
            rty = IR.resolve(ty, self.mod)
            if rty.kind == "array":
                sz = IR.sizeof(rty.elem, self.mod)
                off = off.add(il.scale(sz))
                al = gcd(al, sz * (abs(int(il.c)) if il.is_const() else 1))
                ty = rty.elem
            elif rty.kind == "struct":
                if not il.is_const():
                    raise Broken("variable struct index")
                fo = IR.field_offset(rty, int(il.c), self.mod)
                off = off.addc(fo)
                al = gcd(al, fo)
                ty = rty.fields[int(il.c)]
            else:
                raise Broken("gep into %r" % rty)
        lo, hi = st.rng_lin_int(off)
        return PtrV(p.glob, IntV(64, off, lo, hi), al)

    def flat_global(self, g):
        """flatten a global initializer into (elem_size, [values]) if homogeneous"""
        if g in self.gsize:
            return self.gsize[g]
        ent = self.mod.globals.get(g)
        if ent is None:
            raise Broken("load from unknown global @%s" % g)
        ty, init, is_const, linkage = ent
        if init is None:
            raise Broken("load from global without initializer @%s" % g)
        if not is_const:
            if "internal" not in linkage and "private" not in linkage:
                raise Broken("load from mutable external global @%s" % g)
            if g in self.mod.stores_to:
                raise Broken("global @%s is written somewhere in the module" % g)
        vals = []
        esz = [None]

        def walk(t, v):
            rt = IR.resolve(t, self.mod)
            if rt.kind == "array":
                if v == "zero":
                    v = ["zero"] * rt.n
                for e in v:
                    walk(rt.elem, e)
            elif rt.kind == "struct":
                if v == "zero":
                    v = ["zero"] * len(rt.fields)
                for f, e in zip(rt.fields, v):
                    walk(f, e)
            elif rt.kind == "int":
                s = IR.sizeof(rt, self.mod)
                if esz[0] is None:
                    esz[0] = (s, rt.bits)
                elif esz[0] != (s, rt.bits):
                    raise Broken("heterogeneous global @%s" % g)
                x = 0 if v == "zero" else v
                if x is None:
                    raise Broken("undef in global @%s" % g)
                vals.append(x)
            else:
                raise Broken("global element type %r" % rt)
        walk(ty, init)
        self.gsize[g] = (esz[0][0], esz[0][1], vals, IR.sizeof(ty, self.mod))
        return self.gsize[g]

    # ------------------------------------------------------------ main loop
    def run(self, init):
        res = Result()
        self.res = res
        active = [init]
        for ps in sorted(k for k in self.partition if k in init.bounds):
            nxt_ = []
            for s0 in active:
                a, z = s0.bounds[ps]
                for case in self.classes(Lin.sym(ps), a, z, ps):
                    s2 = s0.fork()
                    try:
                        self.apply(s2, case)
                    except Infeasible:
                        continue
                    nxt_.append(s2)
            active = nxt_
        visited = {}
        parked = {}
        nstates = 1
        while active or parked:
            if not active:
                # join parked states
                for key, sts in list(parked.items()):
                    del parked[key]
                    if len(sts) > self.join_threshold or (len(sts) > self.early_join and self.same_control(sts, key[0])):
                        res.stats["joins"] += 1
                        try:
                            active.append(self.join(sts, key))
                        except Infeasible:
                            pass
                    else:
                        active.extend(sts)
                continue
            st = active.pop()
            try:
                out = self.step_block(st)
            except Infeasible:
                res.stats["infeasible"] += 1
                continue
            for s in out:
                if self.stop_hook is not None and s.pc == 0 and getattr(s, 'arrived', False) and self.stop_hook(s):
                    res.stopped.append(s)
                    continue
                if s.block in self.merge_blocks and s.pc == 0 and getattr(s, 'arrived', False):
                    s.arrived = False
                    # evaluate phis now so that the signature is taken after them
                    try:
                        self.do_phis(s)
                        sig = self.signature(s)
                    except Infeasible:
                        continue
                    h = hash(sig)
                    prev = visited.get(h)
                    if prev is not None and prev == sig:
                        res.dropped_wraps.extend(s.wraps)
                        res.dropped_notes.extend(s.notes)
                        res.stats["dedup"] = res.stats.get("dedup", 0) + 1
                        continue
                    visited[h] = sig
                nstates += 1
                if nstates > self.max_states:
                    raise Broken("state budget exceeded (%d) in %s" % (self.max_states, self.fn.name))
                if s.block in self.loop_heads and (s.prev, s.block) in self.back_edges:
                    it = s.iters.get(s.block, 0) + 1
                    s.iters[s.block] = it
                    if it > self.max_iter:
                        raise Broken("loop iteration budget exceeded at %%%s in %s" % (s.block, self.fn.name))
                    parked.setdefault((s.block, s.prev, s.tag, it, s.loop_entry.get(s.block)), []).append(s)
                else:
                    if s.block in self.loop_heads and getattr(s, "arrived_head", None) != s.block:
                        # first arrival at this loop: remember the values it starts from (they name the loop's results)
                        try:
                            fresh_ = s.pc <= len(self.head_phis[s.block])     # re-application is harmless: the entry condition fails
                            if s.pc == 0:
                                self.do_phis(s)
                            if fresh_ and s.block in self.isqrt_spec and self.stop_hook is None:
                                from . import isqrt as _isq
                                if _isq.apply_summary(self, s, s.block):
                                    res.stats["loop_summaries"] = res.stats.get("loop_summaries", 0) + 1
                                    s.arrived_head = s.block
                                    active.append(s)
                                    continue
                            ent = []
                            for n_ in self.head_phis[s.block]:
                                ent.append(self.vsig(s, s.env[n_])[:3] if n_ in s.env else None)
                            s.loop_entry = dict(s.loop_entry)
                            # loop-invariant inputs: the values (not the SSA names, which differ between inlined copies)
                            # that the loop body reads from outside
                            inv = []
                            for n_ in sorted(self.loop_reads.get(s.block, ())):
                                v_ = s.env.get(n_)
                                if isinstance(v_, (IntV, PtrV)):
                                    inv.append(self.vsig(s, v_)[:3])
                            s.loop_entry[s.block] = (tuple(ent), tuple(sorted(inv, key=repr)))
                        except Infeasible:
                            continue
                    active.append(s)
        res.stats["states"] = nstates
        return res

    def _pred_syms(self, p, out):
        k = p[0]
        if k == "icmp":
            out.update(p[2].lin.t)
            out.update(p[3].lin.t)
        elif k == "not":
            self._pred_syms(p[1], out)
        elif k in ("and", "or"):
            self._pred_syms(p[1], out)
            self._pred_syms(p[2], out)
        elif k == "lin":
            out.update(p[1].t)

    def same_control(self, sts, head):
        for n in self.ctrl_phis.get(head, ()):
            k0 = None
            for s in sts:
                v = s.env.get(n)
                if isinstance(v, IntV):
                    k = ("i", v.lin.key())
                elif isinstance(v, PtrV):
                    k = ("p", v.glob, v.off.lin.key())
                elif isinstance(v, BoolV):
                    k = ("b", v.tv)
                else:
                    return False
                if k0 is None:
                    k0 = k
                elif k != k0:
                    return False
        return True

    def join(self, sts, key):
        ok = []
        for s in sts:
            try:
                for v in s.env.values():
                    if isinstance(v, IntV):
                        s.rng(v)
                    elif isinstance(v, PtrV):
                        s.rng(v.off)
                ok.append(s)
            except Infeasible:
                self.res.stats["infeasible"] += 1
        sts = ok
        if not sts:
            raise Infeasible()
        if len(sts) == 1:
            return sts[0]
        base = sts[0].fork()
        head = key[0]
        names = set(base.env)
        for s in sts[1:]:
            names &= set(s.env)
        # symbol bounds: hull over states of symbols present everywhere; others dropped
        syms = set(base.bounds)
        for s in sts[1:]:
            syms &= set(s.bounds)
        nb = {}
        for y in syms:
            lo = min(s.bounds[y][0] for s in sts)
            hi = max(s.bounds[y][1] for s in sts)
            nb[y] = (lo, hi)
        base.bounds = nb
        # constraints: keep those present in all states (hull)
        ck = set(base.cons)
        for s in sts[1:]:
            ck &= set(s.cons)
        nc = {}
        for k in ck:
            los = [s.cons[k][0] for s in sts]
            his = [s.cons[k][1] for s in sts]
            lo = None if any(x is None for x in los) else min(los)
            hi = None if any(x is None for x in his) else max(his)
            if all(y in nb for y, _ in k):
                nc[k] = (lo, hi)
        base.cons = nc
        env = {}
        for n in names:
            vs = [s.env[n] for s in sts]
            v0 = vs[0]
            same = True
            for v in vs[1:]:
                if type(v) is not type(v0):
                    same = False
                    break
                if isinstance(v0, IntV):
                    if v.lin.key() != v0.lin.key():
                        same = False
                        break
                elif isinstance(v0, BoolV):
                    if v.tv != v0.tv or v.tv is None:
                        same = False
                        break
                elif isinstance(v0, FpV):
                    if v.term != v0.term:
                        same = False
                        break
                elif isinstance(v0, PtrV):
                    if v.glob != v0.glob or v.off.lin.key() != v0.off.lin.key():
                        same = False
                        break
                else:
                    same = False
                    break
            if same and (not isinstance(v0, IntV) or all(y in nb for y in v0.lin.t)):
                if isinstance(v0, IntV):
                    env[n] = IntV(v0.w, v0.lin, min(v.lo for v in vs), max(v.hi for v in vs), min(v.tz for v in vs))
                else:
                    env[n] = v0
                continue
            if isinstance(v0, IntV) and all(isinstance(v, IntV) for v in vs):
                lo = min(s.rng(v)[0] for s, v in zip(sts, vs))
                hi = max(s.rng(v)[1] for s, v in zip(sts, vs))
                if n in self.head_phis.get(head, ()):
                    # result of `key[3]` iterations of this loop body started from the recorded entry values:
                    # an uninterpreted function application, the same symbol in every program that inlines the loop
                    t = T("loopval", self.loop_sig[head], key[3], self.head_phis[head].index(n), key[4])
                else:
                    t = T("join", head, key[3], n, repr(key[2]))
                base.bounds[t] = (lo, hi)
                env[n] = IntV(v0.w, Lin.sym(t), lo, hi, min(v.tz for v in vs))
            elif isinstance(v0, BoolV) and all(isinstance(v, BoolV) for v in vs):
                env[n] = BoolV(None, ("lin", Lin.sym(base.mint(T("joinb", head, key[3], n), 0, 1)), 1, 1))
            elif isinstance(v0, FpV) and all(isinstance(v, FpV) for v in vs):
                env[n] = FpV(v0.kind, min(v.lo for v in vs), max(v.hi for v in vs), any(v.nan for v in vs),
                             T("joinf", head, key[3], n))
            elif isinstance(v0, PtrV) and all(isinstance(v, PtrV) and v.glob == v0.glob for v in vs):
                lo = min(s.rng(v.off)[0] for s, v in zip(sts, vs))
                hi = max(s.rng(v.off)[1] for s, v in zip(sts, vs))
                t = T("joinp", head, key[3], n, repr(key[2]))
                base.bounds[t] = (lo, hi)
                from math import gcd as _g
                al = 0
                for v in vs:
                    al = _g(al, v.al)
                env[n] = PtrV(v0.glob, IntV(64, Lin.sym(t), lo, hi), al)
            # else: dropped (use will be reported as undefined -> Broken)
        # prune: keep only live names, and symbols/constraints reachable from them
        live = self.live_after_phi[head]
        env = {n: v for n, v in env.items() if n in live}
        keep = set(k for k in base.bounds if isinstance(k, str) and k[0] == "p" and k[1:].isdigit())
        for v in env.values():
            if isinstance(v, IntV):
                keep.update(v.lin.t)
            elif isinstance(v, PtrV):
                keep.update(v.off.lin.t)
            elif isinstance(v, BoolV) and v.tv is None:
                self._pred_syms(v.pred, keep)
            elif isinstance(v, FpV):
                if v.xlin is not None:
                    keep.update(v.xlin.t)
                if v.slin is not None:
                    keep.update(v.slin.t)
        base.cons = {k: c for k, c in base.cons.items() if all(y in keep for y, _ in k)}
        base.bounds = {k: b for k, b in base.bounds.items() if k in keep}
        fkeep = set(v.fsym for v in env.values() if isinstance(v, FpV) and v.fsym is not None)
        base.fb = {k: b for k, b in base.fb.items() if k in fkeep or (k[0] == "f" and k[1:].isdigit())}
        base.prod = {k: v for k, v in base.prod.items() if k in keep}
        base.prodl = {k: v for k, v in base.prodl.items() if k in keep}
        base.env = env
        base.trace = base.trace + [("join", head, len(sts))]
        for s in sts[1:]:
            self.res.dropped_wraps.extend(s.wraps)
            self.res.dropped_notes.extend(s.notes)
        return base

    def step_block(self, st):
        blk = self.fn.blocks[st.block]
        insts = blk.insts
        n = len(insts)
        # phis first (parallel semantics)
        if st.pc == 0:
            self.do_phis(st)
        return self.step_insts(st, insts)

    def do_phis(self, st):
        blk = self.fn.blocks[st.block]
        insts = blk.insts
        n = len(insts)
        if st.pc == 0:
            upd = {}
            mt = {}
            pc = 0
            while pc < n and insts[pc].op == "phi":
                i = insts[pc]
                found = False
                for v, lab in i.ops:
                    if lab == st.prev:
                        upd[i.res] = self.val(st, v)
                        if st.mono is not None:
                            mt[i.res] = self.mono_of(st, v)
                        found = True
                        break
                if not found:
                    raise Broken("phi without incoming for %%%s" % st.prev)
                pc += 1
            st.env.update(upd)
            for k_, t_ in mt.items():
                if t_ is None:
                    st.mono.pop(k_, None)
                else:
                    st.mono[k_] = t_
            st.pc = pc
            if pc == 0:
                st.pc = 0
            st.phis_done = True

    def step_insts(self, st, insts):
        while True:
            i = insts[st.pc]
            st.steps += 1
            self.res.stats["steps"] += 1
            try:
                r = self.exec(st, i)
            except Split as sp:
                key = (st.block, st.pc)
                if getattr(st, "_rk", None) == key:
                    st._rn += 1
                    if st._rn > 200:
                        raise Broken("no progress after split (%s) at %s" % (sp.why, i.text))
                else:
                    st._rk = key
                    st._rn = 1
                out = []
                for case in sp.cases:
                    s2 = st.fork()
                    s2._rk = st._rk
                    s2._rn = st._rn
                    try:
                        self.apply(s2, case)
                    except Infeasible:
                        continue
                    out.append(s2)
                self.res.stats["forks"] += max(0, len(out) - 1)
                if not out:
                    raise Infeasible()
                if len(out) == 1:
                    st = out[0]
                    continue
                return out
            if r is None:
                st.pc += 1
                continue
            return r

    def goto(self, st, target):
        st.prev = st.block
        st.block = target
        st.pc = 0
        st.arrived = True
        return st

    # ------------------------------------------------------------ instruction semantics
    def exec(self, st, i):
        op = i.op
        m = getattr(self, "x_" + op, None)
        if m is None:
            raise Broken("unsupported instruction: %s" % i.text)
        if st.mono is None:
            return m(st, i)
        nw = st.wraps.head
        r = m(st, i)
        if i.res is not None:
            self.tag_mono(st, i, nw)
        return r

    # ------------------------------------------------------------ monotonicity tags (opt-in: state.mono is a dict)
    # tag of an SSA value: +1 / -1 if it is a non-decreasing / non-increasing function of parameter 0 on this path (the other
    # parameters held fixed), 0 if it does not depend on parameter 0, None if nothing is established. Only operations that are
    # monotone as functions of real numbers composed with monotone roundings (floor, truncation, round-to-nearest) propagate a
    # tag, and only when the instruction did not wrap.
    def mono_of(self, st, o):
        if not isinstance(o, IR.Operand):
            return None
        if o.kind in ("int", "fp", "null", "undef"):
            return 0
        if o.kind == "reg":
            return st.mono.get(o.val)
        return None

    @staticmethod
    def _madd(a, b):
        if a is None or b is None:
            return None
        if a == 0:
            return b
        if b == 0 or a == b:
            return a
        return None

    @staticmethod
    def _mneg(a):
        return None if a is None else -a

    def _msign(self, st, o):
        """+1 if the operand is >= 0 on this state, -1 if <= 0, 0 if exactly 0, None otherwise"""
        v = self.val(st, o)
        if isinstance(v, IntV):
            lo, hi = st.rng(v)
        elif isinstance(v, FpV):
            lo, hi, nan = self.frng(st, v)
            if nan:
                return None
        else:
            return None
        if lo == hi == 0:
            return 0
        if lo >= 0:
            return 1
        if hi <= 0:
            return -1
        return None

    def _mmul(self, st, oa, ob):
        ta, tb = self.mono_of(st, oa), self.mono_of(st, ob)
        if ta is None or tb is None:
            return None
        if ta == 0 and tb == 0:
            return 0
        sa, sb = self._msign(st, oa), self._msign(st, ob)
        # d(ab) = a'b + ab'
        t1 = 0 if ta == 0 or sb == 0 else (None if sb is None else ta * sb)
        t2 = 0 if tb == 0 or sa == 0 else (None if sa is None else tb * sa)
        return self._madd(t1, t2)

    def tag_mono(self, st, i, nw):
        op = i.op
        tag = None
        wrapped = False
        # wrap events recorded while this instruction executed (nw: head of the persistent list before it)
        n_ = st.wraps.head
        while n_ is not None and n_ is not nw:
            if n_[0][2] != 0:
                wrapped = True
            n_ = n_[1]
        try:
            if wrapped:
                tag = None
            elif op in ("add", "fadd"):
                tag = self._madd(self.mono_of(st, i.ops[0]), self.mono_of(st, i.ops[1]))
            elif op in ("sub", "fsub"):
                tag = self._madd(self.mono_of(st, i.ops[0]), self._mneg(self.mono_of(st, i.ops[1])))
            elif op in ("mul", "fmul"):
                tag = self._mmul(st, i.ops[0], i.ops[1])
            elif op in ("shl",):
                if self.mono_of(st, i.ops[1]) == 0:
                    tag = self.mono_of(st, i.ops[0])
            elif op in ("ashr", "lshr"):
                if self.mono_of(st, i.ops[1]) == 0 and (op == "ashr" or self._msign(st, i.ops[0]) in (0, 1)):
                    tag = self.mono_of(st, i.ops[0])
            elif op in ("sdiv", "udiv", "fdiv"):
                if self.mono_of(st, i.ops[1]) == 0 and (op != "udiv" or self._msign(st, i.ops[0]) in (0, 1)):
                    sd = self._msign(st, i.ops[1])
                    ta = self.mono_of(st, i.ops[0])
                    if sd in (1, -1) and ta is not None:
                        tag = ta * sd
            elif op in ("sext", "sitofp", "fpext", "fptrunc", "fptosi", "bitcast"):
                tag = self.mono_of(st, i.ops[0])
            elif op in ("zext", "uitofp"):
                v = self.val(st, i.ops[0])
                if isinstance(v, BoolV) or self._msign(st, i.ops[0]) in (0, 1):
                    tag = self.mono_of(st, i.ops[0]) if not isinstance(v, BoolV) else None
            elif op == "trunc":
                v = self.val(st, i.ops[0])
                r = st.env.get(i.res)
                if isinstance(v, IntV) and isinstance(r, IntV) and st.rng(v) == st.rng(r):
                    tag = self.mono_of(st, i.ops[0])
            elif op == "fneg":
                tag = self._mneg(self.mono_of(st, i.ops[0]))
            elif op == "select":
                c = self.to_bool(st, self.val(st, i.ops[0]))
                if isinstance(c, BoolV) and c.tv is not None:
                    tag = self.mono_of(st, i.ops[1] if c.tv else i.ops[2])
            elif op == "call":
                name = i.ops[0]
                a = i.ops[1:]
                if name.startswith("llvm.expect."):
                    tag = self.mono_of(st, a[0])
                elif name.startswith("llvm.fmuladd."):
                    tag = self._madd(self._mmul(st, a[0], a[1]), self.mono_of(st, a[2]))
                elif name in ("sqrt", "llvm.sqrt.f64", "llvm.sqrt.f32"):
                    tag = self.mono_of(st, a[0])
                elif ".with.overflow." in name:
                    # the aggregate carries the tag of its value field (the overflow flag branches to a trap / is path-decided)
                    if ".sadd." in name or ".uadd." in name:
                        tag = self._madd(self.mono_of(st, a[0]), self.mono_of(st, a[1]))
                    elif ".ssub." in name or ".usub." in name:
                        tag = self._madd(self.mono_of(st, a[0]), self._mneg(self.mono_of(st, a[1])))
                    elif ".smul." in name or ".umul." in name:
                        tag = self._mmul(st, a[0], a[1])
            elif op == "extractvalue":
                if i.ops[1:] and (i.ops[1] == 0 or getattr(i.ops[1], "val", None) == 0):
                    tag = self.mono_of(st, i.ops[0])
            r = st.env.get(i.res)
            if isinstance(r, FpV) and r.nan:
                tag = None
        except (Split, Infeasible, Broken):
            tag = None
        if tag is None:
            st.mono.pop(i.res, None)
        else:
            st.mono[i.res] = tag

    def x_br(self, st, i):
        return [self.goto(st, i.ops[0])]

    def x_condbr(self, st, i):
        c = self.to_bool(st, self.val(st, i.ops[0]))
        t1, t2 = i.ops[1], i.ops[2]
        trap_t = t1 in self.trap_blocks
        trap_f = t2 in self.trap_blocks
        if trap_t or trap_f:
            self.res.stats["trap_edges"] += 1
        if c.tv is not None:
            tgt = t1 if c.tv else t2
            if (trap_t or trap_f) and tgt not in self.trap_blocks:
                self.res.stats["trap_edges_dead"] += 1
            st.trace.append((i.line, c.tv))
            return [self.goto(st, tgt)]
        out = []
        expanded = []
        split_seen = False
        for truth, tgt in ((True, t1), (False, t2)):
            for refs in self.refine(st, c.pred, truth):
                s2 = st.fork()
                try:
                    self.apply(s2, refs)
                except Infeasible:
                    continue
                except Split as sp:
                    # a refinement minted a symbol that asks for a case split: the split was raised on the fork, so it is re-raised
                    # for the instruction as a whole with this branch decision in front of every case (the 'parted' marker first,
                    # so that re-applying the refinement does not ask again)
                    split_seen = True
                    for case in sp.cases:
                        marks = [c_ for c_ in case if c_[0] == "parted"]
                        rest = [c_ for c_ in case if c_[0] != "parted"]
                        expanded.append(marks + list(refs) + rest)
                    continue
                expanded.append(list(refs))
                s2.trace.append((i.line, truth))
                out.append(self.goto(s2, tgt))
        if split_seen:
            raise Split(expanded, "branch-refinement")
        self.res.stats["forks"] += max(0, len(out) - 1)
        if (trap_t or trap_f) and not any(s.block in self.trap_blocks for s in out):
            self.res.stats["trap_edges_dead"] += 1
        if not out:
            raise Infeasible()
        return out

    def x_switch(self, st, i):
        c = self.as_int(st, self.val(st, i.ops[0]))
        lo, hi = st.rng(c)
        out = []
        for cv, lab in i.ops[2]:
            if lo <= cv <= hi:
                s2 = st.fork()
                try:
                    s2.constrain(c.lin, cv, cv)
                except Infeasible:
                    continue
                out.append(self.goto(s2, lab))
        # default: value different from all cases
        cases = sorted(cv for cv, _ in i.ops[2])
        segs = []
        cur = lo
        for cv in cases:
            if cv < cur:
                continue
            if cv > hi:
                break
            if cv - 1 >= cur:
                segs.append((cur, cv - 1))
            cur = cv + 1
        if cur <= hi:
            segs.append((cur, hi))
        for a, z in segs:
            s2 = st.fork()
            try:
                s2.constrain(c.lin, a, z)
            except Infeasible:
                continue
            out.append(self.goto(s2, i.ops[1]))
        if not out:
            raise Infeasible()
        return out

    def x_unreachable(self, st, i):
        raise Infeasible()

    def x_ret(self, st, i):
        v = self.val(st, i.ops[0]) if i.ops else None
        self.res.paths.append(PathSummary(st, v, self.mono_of(st, i.ops[0]) if (i.ops and st.mono is not None) else None))
        return []

    def x_phi(self, st, i):
        raise Broken("phi in the middle of a block")

    def x_alloca(self, st, i):
        raise Broken("alloca survived SROA: %s" % i.text)

    def x_store(self, st, i):
        raise Broken("store survived SROA: %s" % i.text)

    def eval_pred(self, st, pred):
        k = pred[0]
        if k == "const":
            return pred[1]
        if k == "not":
            r = self.eval_pred(st, pred[1])
            return None if r is None else (not r)
        if k == "and":
            a = self.eval_pred(st, pred[1])
            b = self.eval_pred(st, pred[2])
            if a is False or b is False:
                return False
            if a is True and b is True:
                return True
            return None
        if k == "or":
            a = self.eval_pred(st, pred[1])
            b = self.eval_pred(st, pred[2])
            if a is True or b is True:
                return True
            if a is False and b is False:
                return False
            return None
        if k == "lin":
            lo, hi = st.rng_lin_int(pred[1])
            if lo >= pred[2] and hi <= pred[3]:
                return True
            if hi < pred[2] or lo > pred[3]:
                return False
            return None
        if k == "icmp":
            return self.icmp_tv(st, pred[1], pred[2], pred[3])
        if k == "fcmp":
            return self.fcmp_tv(st, pred[1], pred[2], pred[3])
        raise Broken("eval_pred %r" % (pred,))

    def to_bool(self, st, v):
        if isinstance(v, BoolV):
            if v.tv is None:
                tv = self.eval_pred(st, v.pred)
                if tv is not None:
                    return BoolV(tv)
            return v
        if isinstance(v, IntV) and v.w == 1:
            lo, hi = st.rng(v)
            if lo == hi:
                return BoolV(bool(lo))
            return BoolV(None, v.pred if v.pred is not None else ("lin", v.lin, 1, 1))
        raise Broken("expected i1")

    # ---- integer arithmetic
    def ints(self, st, i):
        a = self.val(st, i.ops[0])
        b = self.val(st, i.ops[1])
        if isinstance(a, BoolV) or isinstance(b, BoolV):
            return a, b
        return a, b

    def uwrap(self, st, i, a, b, op):
        """record whether the operation, read as unsigned arithmetic, can exceed 2^w"""
        w = a.w
        Mw = 1 << w

        def ur(v):
            lo, hi = st.rng(v)
            if lo >= 0:
                return lo, hi
            if hi < 0:
                return lo + Mw, hi + Mw
            return 0, Mw - 1
        al, ah = ur(a)
        if op == "shl":
            k = b
            lo, hi = al << k, ah << k
        else:
            bl, bh = ur(b)
            if op == "add":
                lo, hi = al + bl, ah + bh
            else:
                lo, hi = al * bl, ah * bh
        if hi >= Mw:
            st.notes.append(("uwrap", i.line, op, lo, hi))

    def x_add(self, st, i):
        a, b = self.ints(st, i)
        if isinstance(a, BoolV):
            raise Broken("add i1")
        if a.pbase or b.pbase:
            raise Broken("arithmetic on ptrtoint")
        exact = a.lin.add(b.lin)
        if "nsw" in i.attrs:
            self.poison_check(st, i, exact, a.w)
        nn = st.rng(a)[0] >= 0 and st.rng(b)[0] >= 0
        if "nsw" not in i.attrs:
            self.uwrap(st, i, a, b, "add")
        st.env[i.res] = self.wrapfit(st, a.w, exact, "add", i, min(a.tz, b.tz), nn)

    def x_sub(self, st, i):
        a, b = self.ints(st, i)
        if isinstance(a, BoolV):
            raise Broken("sub i1")
        if a.pbase or b.pbase:
            if a.pbase == b.pbase:
                st.env[i.res] = self.mk(st, a.w, a.lin.sub(b.lin))
                return
            raise Broken("arithmetic on ptrtoint of different objects")
        exact = a.lin.sub(b.lin)
        if "nsw" in i.attrs:
            self.poison_check(st, i, exact, a.w)
        nn = st.rng(a)[0] >= 0 and st.rng(b)[0] >= 0
        st.env[i.res] = self.wrapfit(st, a.w, exact, "sub", i, min(a.tz, b.tz), nn)

    def poison_check(self, st, i, exact, w):
        lo, hi = st.rng_lin_int(exact)
        tlo, thi = sgn_rng(w)
        if lo < tlo or hi > thi:
            # split so that the overflow case is an alarm of its own
            cases = [[("lin", exact, tlo, thi)]]
            if lo < tlo:
                cases.append([("lin", exact, None, tlo - 1)])
            if hi > thi:
                cases.append([("lin", exact, thi + 1, None)])
            if lo >= tlo - (1 << w) and hi <= thi + (1 << w) and not (lo > thi or hi < tlo):
                raise Split(cases, "nsw")
            self.alarm(st, i, "nsw-overflow", "result of nsw %s can overflow" % i.op)

    @staticmethod
    def canon(lin):
        """(sign, lin') with lin = sign * lin' and the leading coefficient of lin' positive"""
        if not lin.t:
            return 1, lin
        s0 = min(lin.t, key=str)
        if lin.t[s0] < 0:
            return -1, lin.neg()
        return 1, lin

    @staticmethod
    def prod_name(la, lb):
        """(symbol name, sign) of the product of two forms: the symbol stands for canon(la)*canon(lb)"""
        sa, ca = Analyzer.canon(la)
        sb, cb = Analyzer.canon(lb)
        k1, k2 = sorted([ca.key(), cb.key()], key=repr)
        return T("mul", k1, k2), sa * sb

    def prod_sym(self, st, la, lb):
        """symbol for the product of two (canonical) forms and the sign to apply; bounds from the boxes"""
        sa, ca = self.canon(la)
        sb, cb = self.canon(lb)
        alo, ahi = st.rng_lin_int(ca)
        blo, bhi = st.rng_lin_int(cb)
        ka, kb = ca.key(), cb.key()
        cs = [alo * blo, alo * bhi, ahi * blo, ahi * bhi]
        lo, hi = min(cs), max(cs)
        if ka == kb:
            lo = 0 if alo <= 0 <= ahi else min(alo * alo, ahi * ahi)
        k1, k2 = sorted([ka, kb], key=repr)
        t = T("mul", k1, k2)
        s = self.pmint(st, t, lo, hi, (ca, cb))
        st.prod[s] = (k1, k2)
        st.prodl[s] = (ca, cb)
        return s, sa * sb

    def product(self, st, a, b, w):
        """exact product as (lin, lo, hi, tz)"""
        alo, ahi = st.rng(a)
        blo, bhi = st.rng(b)
        if alo == ahi:
            l = b.lin.scale(alo)
        elif blo == bhi:
            l = a.lin.scale(blo)
        else:
            s, sg = self.prod_sym(st, a.lin, b.lin)
            l = Lin.sym(s, sg)
        lo, hi = st.rng_lin_int(l)
        return l, lo, hi, min(64, a.tz + b.tz)

    def x_mul(self, st, i):
        a, b = self.ints(st, i)
        if isinstance(a, BoolV):
            raise Broken("mul i1")
        l, lo, hi, tz = self.product(st, a, b, a.w)
        if "nsw" in i.attrs:
            self.poison_check(st, i, l, a.w)
        nn = st.rng(a)[0] >= 0 and st.rng(b)[0] >= 0
        if "nsw" not in i.attrs:
            self.uwrap(st, i, a, b, "mul")
        st.env[i.res] = self.wrapfit(st, a.w, l, "mul", i, tz, nn)

    def shamt(self, st, b, w):
        lo, hi = st.rng(b)
        if lo == hi:
            return lo
        if lo < 0 or hi >= w:
            raise Broken("shift amount not proved in range (no sanitizer check in front?)")
        if hi - lo < 64:
            raise Split([[("lin", b.lin, k, k), ("tag", ("sh", k))] for k in range(lo, hi + 1)], "shamt")
        raise Broken("shift amount range too wide")

    def x_shl(self, st, i):
        a, b = self.ints(st, i)
        k = self.shamt(st, b, a.w)
        if k < 0 or k >= a.w:
            self.alarm(st, i, "shift-poison", "shift amount %d" % k)
            raise Infeasible()
        exact = a.lin.scale(1 << k)
        if "nsw" not in i.attrs:
            self.uwrap(st, i, a, k, "shl")
        nn = st.rng(a)[0] >= 0
        st.env[i.res] = self.wrapfit(st, a.w, exact, "shl", i, min(64, a.tz + k), nn)

    def x_ashr(self, st, i):
        a, b = self.ints(st, i)
        k = self.shamt(st, b, a.w)
        if k < 0 or k >= a.w:
            self.alarm(st, i, "shift-poison", "shift amount %d" % k)
            raise Infeasible()
        if k == 0:
            st.env[i.res] = a
            return
        if k == a.w - 1:
            # v >> (w-1) is the sign mask: decide the sign of v (this also tells the later uses of the mask what v is)
            lo_, hi_ = st.rng(a)
            if hi_ < 0:
                st.env[i.res] = self.cint(a.w, -1)
                return
            if lo_ >= 0:
                st.env[i.res] = self.cint(a.w, 0)
                return
            raise Split([[("lin", a.lin, None, -1)], [("lin", a.lin, 0, None)]], "sign-mask")
        r, _, _ = self.lowbits(st, a, k)
        st.env[i.res] = self.mk(st, a.w, a.lin.sub(r).div(1 << k), max(0, a.tz - k), clip=True)

    def x_lshr(self, st, i):
        a, b = self.ints(st, i)
        k = self.shamt(st, b, a.w)
        if k < 0 or k >= a.w:
            self.alarm(st, i, "shift-poison", "shift amount %d" % k)
            raise Infeasible()
        ul, lo, hi = self.uview(st, a)
        if k == 0:
            st.env[i.res] = a
            return
        r, _, _ = self.lowbits(st, a, k)
        st.env[i.res] = self.mk(st, a.w, ul.sub(r).div(1 << k), max(0, a.tz - k), clip=True)

    def maxbits(self, st, v):
        """mask of bits that may be set in the two's complement representation"""
        lo, hi = st.rng(v)
        full = (1 << v.w) - 1
        if lo >= 0:
            m = (1 << hi.bit_length()) - 1
        else:
            m = full
        if v.tz:
            m &= ~((1 << min(v.tz, v.w)) - 1)
        return m & full

    def x_and(self, st, i):
        a = self.val(st, i.ops[0])
        b = self.val(st, i.ops[1])
        if isinstance(a, BoolV) or isinstance(b, BoolV):
            a = self.to_bool(st, a)
            b = self.to_bool(st, b)
            if a.tv is False or b.tv is False:
                st.env[i.res] = BoolV(False)
            elif a.tv is True:
                st.env[i.res] = b
            elif b.tv is True:
                st.env[i.res] = a
            else:
                st.env[i.res] = BoolV(None, ("and", a.pred, b.pred))
            return
        w = a.w
        # an all-ones / all-zeros mask (the idiom v >> 63): decide it, then the operation is linear
        for v_ in (a, b):
            if isinstance(v_, IntV) and not v_.lin.is_const():
                lo_, hi_ = st.rng(v_)
                if lo_ == -1 and hi_ == 0:
                    raise Split([[("lin", v_.lin, -1, -1)], [("lin", v_.lin, 0, 0)]], "mask")
        blo, bhi = st.rng(b)
        alo, ahi = st.rng(a)
        if alo == ahi and blo != bhi:
            a, b = b, a
            alo, ahi, blo, bhi = blo, bhi, alo, ahi
        if blo == bhi:
            mask = blo & ((1 << w) - 1)
            if alo == ahi:
                st.env[i.res] = self.cint(w, alo & mask)
                return
            if mask == 0:
                st.env[i.res] = self.cint(w, 0)
                return
            if mask == 1 << (w - 1):
                # x & sign_bit: the sign bit of x alone (decomposed through xor / and / or when x is such a combination)
                sp = self.sign_pred(st, a.lin, w, 0) or ("lin", a.lin, -(1 << w), -1)
                tv_ = self.eval_pred(st, sp)
                if tv_ is None:
                    raise Split(self.refine(st, sp, True) + self.refine(st, sp, False), "sign-bit")
                st.env[i.res] = self.cint(w, -(1 << (w - 1)) if tv_ else 0)
                return
            # contiguous run of ones [lb, hb)
            lb = tz_of(mask)
            run = mask >> lb
            if run & (run + 1) == 0:
                hb = lb + run.bit_length()
                if hb == w:
                    # x - lowbits(x, lb)   (keeps the sign bit)
                    r, _, _ = self.lowbits(st, a, lb)
                    st.env[i.res] = self.mk(st, w, a.lin.sub(r), max(lb, a.tz), clip=True)
                else:
                    rh, _, _ = self.lowbits(st, a, hb)
                    rl, _, _ = self.lowbits(st, a, lb)
                    v = self.mk(st, w, rh.sub(rl), max(lb, a.tz), clip=True)
                    v.lo = max(v.lo, 0)
                    st.env[i.res] = v
                return
        # generic
        ma = self.maxbits(st, a)
        mb = self.maxbits(st, b)
        m = ma & mb
        if m == 0:
            st.env[i.res] = self.cint(w, 0)
            return
        k1, k2 = sorted([a.lin.key(), b.lin.key()], key=repr)
        if m >> (w - 1):
            lo, hi = sgn_rng(w)
        else:
            lo, hi = 0, m
        self.symdef[T("and", w, k1, k2)] = ("and", a.lin, b.lin, w)
        st.env[i.res] = self.fresh(st, w, T("and", w, k1, k2), lo, hi, tz_of(m), deps=(a.lin, b.lin))

    def x_or(self, st, i):
        a = self.val(st, i.ops[0])
        b = self.val(st, i.ops[1])
        if isinstance(a, BoolV) or isinstance(b, BoolV):
            a = self.to_bool(st, a)
            b = self.to_bool(st, b)
            if a.tv is True or b.tv is True:
                st.env[i.res] = BoolV(True)
            elif a.tv is False:
                st.env[i.res] = b
            elif b.tv is False:
                st.env[i.res] = a
            else:
                st.env[i.res] = BoolV(None, ("or", a.pred, b.pred))
            return
        w = a.w
        # an all-ones / all-zeros mask (the idiom v >> 63): decide it, then the operation is linear
        for v_ in (a, b):
            if isinstance(v_, IntV) and not v_.lin.is_const():
                lo_, hi_ = st.rng(v_)
                if lo_ == -1 and hi_ == 0:
                    raise Split([[("lin", v_.lin, -1, -1)], [("lin", v_.lin, 0, 0)]], "mask")
        alo, ahi = st.rng(a)
        blo, bhi = st.rng(b)
        if alo == ahi and blo == bhi:
            st.env[i.res] = self.cint(w, alo | blo)
            return
        if alo == ahi == 0:
            st.env[i.res] = b
            return
        if blo == bhi == 0:
            st.env[i.res] = a
            return
        ma = self.maxbits(st, a)
        mb = self.maxbits(st, b)
        oa = (alo & ((1 << w) - 1)) if alo == ahi else ((1 << (w - 1)) if ahi < 0 else 0)
        ob = (blo & ((1 << w) - 1)) if blo == bhi else ((1 << (w - 1)) if bhi < 0 else 0)
        if mb & ~oa == 0:
            st.env[i.res] = a      # every bit b may set is already set in a
            return
        if ma & ~ob == 0:
            st.env[i.res] = b
            return
        if ma & mb == 0:
            # disjoint bits: or == add on the two's complement representation (no carries)
            st.env[i.res] = self.wrapfit(st, w, a.lin.add(b.lin), "or", i, min(a.tz, b.tz))
            return
        k1, k2 = sorted([a.lin.key(), b.lin.key()], key=repr)
        m = ma | mb
        if m >> (w - 1):
            lo, hi = sgn_rng(w)
        else:
            lo, hi = max(alo, blo, 0), m
        self.symdef[T("or", w, k1, k2)] = ("or", a.lin, b.lin, w)
        st.env[i.res] = self.fresh(st, w, T("or", w, k1, k2), lo, hi, min(a.tz, b.tz), deps=(a.lin, b.lin))

    def unwrap_by_sign(self, st, v):
        """a wrapped value (opaque symbol congruent to an exact form modulo 2^w) whose sign is known on this state equals the low
        w-1 bits of the exact form, minus 2^(w-1) when negative: re-express it that way (shares the low-bit symbol with other code)"""
        if not isinstance(v, IntV) or v.mlin is None:
            return v
        lo_, hi_ = st.rng(v)
        if lo_ < 0 <= hi_:
            return v
        w = v.w
        low_, _, _ = self.lowbits(st, v, w - 1)
        return self.mk(st, w, low_ if lo_ >= 0 else low_.addc(-(1 << (w - 1))), clip=True)

    def x_xor(self, st, i):
        a = self.val(st, i.ops[0])
        b = self.val(st, i.ops[1])
        if isinstance(a, BoolV) or isinstance(b, BoolV):
            a = self.to_bool(st, a)
            b = self.to_bool(st, b)
            if b.tv is None and a.tv is not None:
                a, b = b, a
            if b.tv is True:
                st.env[i.res] = BoolV(None if a.tv is None else (not a.tv), ("not", a.pred))
            elif b.tv is False:
                st.env[i.res] = a
            else:
                raise Split([[("pred", a.pred, True)], [("pred", a.pred, False)]], "xor-bool") \
                    if False else Broken("xor of two unknown booleans")
            return
        w = a.w
        alo, ahi = st.rng(a)
        blo, bhi = st.rng(b)
        if alo == ahi and blo == bhi:
            st.env[i.res] = self.cint(w, alo ^ blo)
            return
        # an all-ones / all-zeros mask (the idiom v >> 63): decide it, then the operation is linear
        for v_ in (a, b):
            if isinstance(v_, IntV) and not v_.lin.is_const():
                lo_, hi_ = st.rng(v_)
                if lo_ == -1 and hi_ == 0:
                    raise Split([[("lin", v_.lin, -1, -1)], [("lin", v_.lin, 0, 0)]], "mask")
        if blo == bhi == 0:
            st.env[i.res] = self.unwrap_by_sign(st, a)
            return
        if alo == ahi == 0:
            st.env[i.res] = self.unwrap_by_sign(st, b)
            return
        for x_, (cl_, ch_) in ((a, (blo, bhi)), (b, (alo, ahi))):
            if cl_ == ch_ == -(1 << (w - 1)):
                # x ^ sign_bit flips the sign bit: x - 2^(w-1) for x >= 0, x + 2^(w-1) for x < 0
                xl_, xh_ = st.rng(x_)
                if xl_ < 0 <= xh_:
                    raise Split([[("lin", x_.lin, None, -1)], [("lin", x_.lin, 0, None)]], "sign-flip")
                if x_.mlin is not None:
                    # a wrapped value: its low w-1 bits are those of the exact form, the sign bit is the one just decided
                    low_, _, _ = self.lowbits(st, x_, w - 1)
                    st.env[i.res] = self.mk(st, w, low_.addc(-(1 << (w - 1))) if xl_ >= 0 else low_, clip=True)
                    return
                st.env[i.res] = self.mk(st, w, x_.lin.addc(-(1 << (w - 1))) if xl_ >= 0 else x_.lin.addc(1 << (w - 1)))
                return
        if blo == bhi == -1:
            st.env[i.res] = self.mk(st, w, a.lin.neg().addc(-1))
            return
        if alo == ahi == -1:
            st.env[i.res] = self.mk(st, w, b.lin.neg().addc(-1))
            return
        k1, k2 = sorted([a.lin.key(), b.lin.key()], key=repr)
        lo, hi = sgn_rng(w)
        if alo >= 0 and blo >= 0:
            lo, hi = 0, (1 << max(ahi.bit_length(), bhi.bit_length())) - 1
        self.symdef[T("xor", w, k1, k2)] = ("xor", a.lin, b.lin, w)
        st.env[i.res] = self.fresh(st, w, T("xor", w, k1, k2), lo, hi, deps=(a.lin, b.lin))

    # ---- division
    def divparts(self, st, a, b, signed):
        """returns (q IntV-ish lin, r lin) for truncating division on the current state"""
        w = a.w
        if signed:
            al, (alo, ahi) = a.lin, st.rng(a)
            bl, (blo, bhi) = b.lin, st.rng(b)
        else:
            al, alo, ahi = self.uview(st, a)
            bl, blo, bhi = self.uview(st, b)
        if blo <= 0 <= bhi:
            if blo == 0 == bhi:
                raise Infeasible()   # division by zero is guarded by the sanitizer branch
            if blo < 0 < bhi:
                raise Split([[("lin", bl, None, -1)], [("lin", bl, 1, None)]], "divisor-sign")
            # zero at an end: sanitizer guard excluded it
            if blo == 0:
                st.constrain(bl, 1, None)
                blo = 1
            else:
                st.constrain(bl, None, -1)
                bhi = -1
        if alo < 0 < ahi:
            raise Split([[("lin", al, None, -1)], [("lin", al, 0, None)]], "dividend-sign")
        if blo == bhi:
            c = blo
            ac = abs(c)
            # remainder symbol with canonicalisation
            r, rlo, rhi = self.trunc_rem(st, al, alo, ahi, ac)
            q = al.sub(r).div(ac)
            if c < 0:
                q = q.neg()
            return q, r
        # exact divisions:  (c*L) / L == c   and   (A*B) / B == A   (divisor non-zero on this path)
        if bl.t and not bl.cn and bl.d == 1 and al.d == 1:
            s0 = min(bl.t, key=str)
            if s0 in al.t and al.t[s0] % bl.t[s0] == 0:
                c = al.t[s0] // bl.t[s0]
                if al.key() == bl.scale(c).key():
                    return Lin.const(c), Lin.const(0)
        sg = al.single()
        if sg is not None and al.cn == 0 and al.d == 1 and abs(sg[1]) == 1:
            pr = st.prodl.get(sg[0])
            if pr is not None:
                sb, cb = self.canon(bl)
                for this, other in ((pr[0], pr[1]), (pr[1], pr[0])):
                    if this.key() == cb.key():
                        return other.scale(sg[1] * sb), Lin.const(0)
        # variable divisor: mint quotient symbol
        # trunc toward zero of extremes
        def tdiv(x, y):
            q = abs(x) // abs(y)
            return q if (x >= 0) == (y > 0) else -q
        cs = [tdiv(x, y) for x in (alo, ahi) for y in (blo, bhi)]
        qlo, qhi = min(cs), max(cs)
        if blo > 0 and alo >= 0 and qhi - qlo > 1 and (set(al.t) & set(bl.t)):
            # numerator and divisor are correlated: a/b < Q+1 iff a - (Q+1) b < 0, a/b >= Q iff a - Q b >= 0, both linear for a
            # fixed Q; the predicates are monotone in Q (b > 0), so the best Q is found by bisection
            try:
                lo_, hi_ = qlo, qhi
                while lo_ < hi_:
                    m_ = (lo_ + hi_) // 2
                    if st.rng_lin_int(al.sub(bl.scale(m_ + 1)))[1] < 0:
                        hi_ = m_
                    else:
                        lo_ = m_ + 1
                nqhi = lo_
                lo_, hi_ = qlo, nqhi
                while lo_ < hi_:
                    m_ = (lo_ + hi_ + 1) // 2
                    if st.rng_lin_int(al.sub(bl.scale(m_)))[0] >= 0:
                        lo_ = m_
                    else:
                        hi_ = m_ - 1
                qlo, qhi = lo_, nqhi
            except Infeasible:
                raise
        t = T("sdiv" if signed else "udiv", w, al.key(), bl.key())
        qs = self.pmint(st, t, qlo, qhi, (al, bl))
        self.symdef[t] = ("div", al, bl)
        q = Lin.sym(qs)
        # remainder: |r| < |b|, sign of a
        mb = max(abs(blo), abs(bhi)) - 1
        if alo >= 0:
            rlo, rhi = 0, min(mb, ahi)
        else:
            rlo, rhi = -min(mb, -alo), 0
        rt = T("srem" if signed else "urem", w, al.key(), bl.key())
        rs = self.pmint(st, rt, rlo, rhi, (al, bl))
        return q, Lin.sym(rs)

    def trunc_rem(self, st, al, alo, ahi, m):
        """remainder of truncating division of the (sign-definite) form al by constant m>0.
        Canonical symbol: the constant part of al is reduced modulo m when that keeps the sign."""
        if al.d == 1 and al.cn % m == 0 and all(c_ % m == 0 for c_ in al.t.values()):
            return Lin.const(0), 0, 0
        if alo >= 0:
            if ahi < m:
                return al, alo, ahi
            j0, j1 = alo // m, ahi // m
            if j0 == j1:
                return al.addc(-j0 * m), alo - j0 * m, ahi - j0 * m
            # canonical representative, independent of the current box: the constant part reduced into [0, m)
            # (valid when that form is still non-negative: both forms are >= 0 and congruent, so they have one remainder)
            base = al
            if al.d == 1:
                c0 = al.cn % m
                cand = al.addc(c0 - al.cn)
                if alo + (c0 - al.cn) >= 0:
                    base = cand
            s = self.pmint(st, T("rem+", base.key(), m), 0, m - 1, (base,))
            # relational fact: base - rem is a multiple of m within the quotient range
            blo, bhi = st.rng_lin_int(base)
            st.constrain(base.sub(Lin.sym(s)), (blo // m) * m, (bhi // m) * m, mod=m)
            return Lin.sym(s), 0, m - 1
        else:
            # al <= 0 : r = -((-al) rem m)
            nl = al.neg()
            r, lo, hi = self.trunc_rem(st, nl, -ahi, -alo, m)
            return r.neg(), -hi, -lo

    def x_sdiv(self, st, i):
        a, b = self.ints(st, i)
        q, r = self.divparts(st, a, b, True)
        st.env[i.res] = self.mk(st, a.w, q, clip=True)

    def x_srem(self, st, i):
        a, b = self.ints(st, i)
        q, r = self.divparts(st, a, b, True)
        st.env[i.res] = self.mk(st, a.w, r, clip=True)

    def x_udiv(self, st, i):
        a, b = self.ints(st, i)
        q, r = self.divparts(st, a, b, False)
        st.env[i.res] = self.wrapfit(st, a.w, q, "udiv", i)

    def x_urem(self, st, i):
        a, b = self.ints(st, i)
        q, r = self.divparts(st, a, b, False)
        st.env[i.res] = self.wrapfit(st, a.w, r, "urem", i)

    # ---- casts
    def x_sext(self, st, i):
        a = self.val(st, i.ops[0])
        w = i.ty.bits
        if isinstance(a, BoolV):
            ai = self.as_int(st, a)
            st.env[i.res] = self.mk(st, w, ai.lin.neg(), pred=None)
            return
        st.env[i.res] = IntV(w, a.lin, a.lo, a.hi, a.tz, a.pred)

    def x_zext(self, st, i):
        a = self.val(st, i.ops[0])
        w = i.ty.bits
        if isinstance(a, BoolV):
            ai = self.as_int(st, a)
            st.env[i.res] = IntV(w, ai.lin, ai.lo, ai.hi, 0, a.pred)
            return
        ul, lo, hi = self.uview(st, a)
        st.env[i.res] = self.mk(st, w, ul, a.tz, a.pred if lo >= 0 and a.w > 1 else None)

    def x_trunc(self, st, i):
        a = self.val(st, i.ops[0])
        w = i.ty.bits
        a = self.as_int(st, a)
        if w == 1:
            r, lo, hi = self.lowbits(st, a, 1)
            if lo == hi:
                st.env[i.res] = BoolV(bool(lo))
            else:
                st.env[i.res] = BoolV(None, ("lin", r, 1, 1))
            return
        st.env[i.res] = self.wrapfit(st, w, a.lin, "trunc", i, min(a.tz, w))

    def x_ptrtoint(self, st, i):
        p = self.val(st, i.ops[0])
        if not isinstance(p, PtrV):
            raise Broken("ptrtoint of non-pointer")
        st.env[i.res] = IntV(64, p.off.lin, p.off.lo, p.off.hi, 0, None, p.glob or "null")

    def x_bitcast(self, st, i):
        a = self.val(st, i.ops[0])
        if isinstance(a, PtrV):
            st.env[i.res] = a
            return
        raise Broken("bitcast of non-pointer: %s" % i.text)

    def x_getelementptr(self, st, i):
        p = self.val(st, i.ops[0])
        st.env[i.res] = self.gep(st, p, i.ty, [self.val(st, o) for o in i.ops[1:]])

    def x_load(self, st, i):
        p = self.val(st, i.ops[0])
        if not isinstance(p, PtrV) or p.glob is None:
            raise Broken("load through unknown pointer: %s" % i.text)
        ty = IR.resolve(i.ty, self.mod)
        if ty.kind != "int":
            raise Broken("load of non-integer: %s" % i.text)
        ent_ = self.mod.globals.get(p.glob)
        if ent_ is not None and ent_[1] is None and ent_[2] and ("private" in ent_[3] or "internal" in ent_[3]):
            # a private constant with an `undef` initializer (the padding byte of an empty closure object): any value
            sl_, sh_ = sgn_rng(ty.bits)
            st.env[i.res] = self.fresh(st, ty.bits, T("undef", p.glob, i.line), sl_, sh_)
            return
        esz, ebits, vals, gsz = self.flat_global(p.glob)
        if ebits != ty.bits:
            raise Broken("load type differs from global element type: %s" % i.text)
        lo, hi = st.rng(p.off)
        self.res.stats["loads"] += 1
        if lo < 0 or hi > gsz - esz:
            cases = [[("lin", p.off.lin, 0, gsz - esz)]]
            if lo < 0:
                cases.append([("lin", p.off.lin, None, -1)])
            if hi > gsz - esz:
                cases.append([("lin", p.off.lin, gsz - esz + 1, None)])
            if lo > gsz - esz or hi < 0:
                self.alarm(st, i, "oob-load", "offset [%d,%d] outside object @%s of %d bytes" % (lo, hi, p.glob, gsz))
                raise Infeasible()
            self.res.stats["loads"] -= 1
            raise Split(cases, "oob")
        self.res.stats["loads_inbounds"] += 1
        st.notes.append(("load", p.glob, p.off.lin.div(esz), i.line))
        if p.al % esz:
            raise Broken("cannot prove table access is element aligned")
        lo = -((-lo) // esz) * esz
        hi = hi // esz * esz
        if lo == hi:
            st.env[i.res] = self.cint(ty.bits, vals[lo // esz])
            return
        # offset must be a multiple of the element size: check through the form
        idxlin = p.off.lin.div(esz)
        sub = vals[lo // esz: hi // esz + 1]
        sl, sh = sgn_rng(ty.bits)
        sub = [v if v <= sh else v - (1 << ty.bits) for v in sub]
        st.env[i.res] = self.fresh(st, ty.bits, T("load", p.glob, idxlin.key()), min(sub), max(sub), deps=(idxlin,))

    # ---- compare / select
    def x_icmp(self, st, i):
        p = next(iter(i.attrs))
        a = self.val(st, i.ops[0])
        b = self.val(st, i.ops[1])
        if isinstance(a, PtrV) or isinstance(b, PtrV):
            if not (isinstance(a, PtrV) and isinstance(b, PtrV)) or a.glob != b.glob:
                raise Broken("pointer comparison across objects: %s" % i.text)
            a, b = a.off, b.off
            if p[0] == "u":
                p = "s" + p[1:]
        if isinstance(a, BoolV) or isinstance(b, BoolV):
            a = self.as_int(st, a)
            b = self.as_int(st, b)
        # boolean round trip: icmp ne (zext bool), 0
        if a.pred is not None and b.lin.is_const() and b.lin.c in (0, 1) and p in ("eq", "ne") and a.lo >= 0 and a.hi <= 1:
            pos = (p == "ne") == (b.lin.c == 0)
            lo, hi = st.rng(a)
            if lo == hi:
                st.env[i.res] = BoolV(bool(lo) == pos)
            else:
                st.env[i.res] = BoolV(None, a.pred if pos else ("not", a.pred))
            return
        # sign test of a bitwise combination: (a ^ b) < 0 iff the signs differ, (a & b) < 0 iff both are negative, ...
        if b.lin.is_const() and ((p in ("slt", "sge") and b.lin.c == 0) or (p in ("sgt", "sle") and b.lin.c == -1)):
            sp = self.sign_pred(st, a.lin, a.w, 0)
            if sp is not None:
                pred = sp if p in ("slt", "sle") else ("not", sp)
                st.env[i.res] = BoolV(self.eval_pred(st, pred), pred)
                return
        tv = self.icmp_tv(st, p, a, b)
        st.env[i.res] = BoolV(tv, ("icmp", p, a, b))

    def sign_pred(self, st, lin, w, depth):
        """predicate 'the w-bit value with this form is negative', decomposed through xor / and / or symbols; None when the form
        is not such a symbol (the caller then uses the ordinary comparison)"""
        sg = lin.single()
        d = None
        if sg is not None and sg[1] == 1 and lin.cn == 0 and lin.d == 1:
            d = self.symdef.get(sg[0])
        if d is None or d[0] not in ("xor", "and", "or") or d[3] != w or depth > 6:
            return None if depth == 0 else ("lin", lin, -(1 << w), -1)
        pa = self.sign_pred(st, d[1], w, depth + 1)
        pb = self.sign_pred(st, d[2], w, depth + 1)
        if d[0] == "and":
            return ("and", pa, pb)
        if d[0] == "or":
            return ("or", pa, pb)
        return ("or", ("and", pa, ("not", pb)), ("and", ("not", pa), pb))

    def icmp_tv(self, st, p, a, b):
        if p[0] == "u":
            la, alo, ahi = self.uview(st, a)
            lb, blo, bhi = self.uview(st, b)
            q = "s" + p[1:]
        else:
            la, lb = a.lin, b.lin
            q = p
        d = la.sub(lb)
        lo, hi = st.rng_lin_int(d)
        tv = None
        if q == "eq":
            tv = True if lo == hi == 0 else (False if lo > 0 or hi < 0 else None)
        elif q == "ne":
            tv = False if lo == hi == 0 else (True if lo > 0 or hi < 0 else None)
        elif q == "slt":
            tv = True if hi < 0 else (False if lo >= 0 else None)
        elif q == "sle":
            tv = True if hi <= 0 else (False if lo > 0 else None)
        elif q == "sgt":
            tv = True if lo > 0 else (False if hi <= 0 else None)
        elif q == "sge":
            tv = True if lo >= 0 else (False if hi < 0 else None)
        else:
            raise Broken("icmp predicate %s" % p)
        return tv

    def x_select(self, st, i):
        c = self.to_bool(st, self.val(st, i.ops[0]))
        if c.tv is None:
            cases = []
            for truth in (True, False):
                for refs in self.refine(st, c.pred, truth):
                    cases.append(refs)
            raise Split(cases, "select")
        st.env[i.res] = self.val(st, i.ops[1] if c.tv else i.ops[2])

    def x_extractvalue(self, st, i):
        a = self.val(st, i.ops[0])
        if not isinstance(a, AggV):
            raise Broken("extractvalue of non-aggregate")
        st.env[i.res] = a.fields[i.ops[1]]

    # ---- calls
    def x_call(self, st, i):
        name = i.ops[0]
        args = i.ops[1:]
        if name == "llvm.ubsantrap":
            k = args[0].val
            self.alarm(st, i, UBSAN_KIND.get(k, "ubsan-%d" % k), "")
            raise Infeasible()
        if name.startswith("llvm.expect."):
            st.env[i.res] = self.val(st, args[0])
            return
        if name.startswith("llvm.lifetime.") or name.startswith("llvm.dbg.") or name.startswith("llvm.assume"):
            return
        for pre, kind in (("llvm.sadd.with.overflow.", "add"), ("llvm.ssub.with.overflow.", "sub"),
                          ("llvm.smul.with.overflow.", "mul"), ("llvm.uadd.with.overflow.", "uadd"),
                          ("llvm.usub.with.overflow.", "usub"), ("llvm.umul.with.overflow.", "umul")):
            if name.startswith(pre):
                return self.with_overflow(st, i, kind, args)
        if name.startswith("llvm.ctlz.") or name.startswith("llvm.cttz."):
            return self.count_zeros(st, i, name.startswith("llvm.ctlz."), args)
        if name.startswith("llvm.is.constant."):
            # value unknown at this level: both outcomes are analysed
            d = st.isc.pop(i.line, None)
            if d is None:
                raise Split([[("isc", i.line, True)], [("isc", i.line, False)]], "is.constant")
            st.env[i.res] = BoolV(d)
            return
        if name.startswith("llvm.fmuladd."):
            return self.f_fmuladd(st, i, args)
        if name in ("sqrt", "llvm.sqrt.f64"):
            return self.f_sqrt(st, i, args)
        if name.startswith("llvm.fabs."):
            return self.f_fabs(st, i, args)
        if name in ("llround", "lround", "llroundf", "lroundf"):
            return self.f_lround(st, i, name, args)
        if name in LIBM and all(a is not None for a in args):
            return self.f_libm(st, i, name, args)
        raise Broken("call to non-inlined / unknown function @%s" % name)

    def f_lround(self, st, i, name, args):
        """lround / llround: the argument rounded to the nearest integer, halfway cases away from zero (exactly specified by C);
        monotone, so the ends of the argument interval give the ends of the result; NaN or out-of-range arguments give an
        unspecified value (any value of the type)"""
        a = self.fval(st, args[0])
        lo, hi, nan = self.frng(st, a)
        w = i.ty.bits
        tlo, thi = sgn_rng(w)

        def rha(x):
            f = Fraction(x)
            n = (abs(f) + Fraction(1, 2)).__floor__()
            return n if f >= 0 else -n
        t = T(name, a.term)
        if nan or lo > hi or math.isinf(lo) or math.isinf(hi):
            rl, rh = tlo, thi
        else:
            rl, rh = rha(lo), rha(hi)
            if rl < tlo or rh > thi:
                rl, rh = tlo, thi
        st.notes.append(("libm", i.line, name))
        st.env[i.res] = self.fresh(st, w, t, rl, rh)

    def f_libm(self, st, i, name, args):
        """external libm function of floating arguments: an opaque, deterministic function (value numbered by its
        arguments); only the range that every implementation guarantees is assumed"""
        vs = [self.fval(st, a) for a in args]
        kind = i.ty.kind
        lo, hi = LIBM[name]
        anynan = any(self.frng(st, v)[2] for v in vs)
        t = T("libm", name, *[v.term for v in vs])
        st.notes.append(("libm", i.line, name))
        st.env[i.res] = self.F(st, kind, lo, hi, True, t)

    def with_overflow(self, st, i, kind, args):
        a = self.as_int(st, self.val(st, args[0]))
        b = self.as_int(st, self.val(st, args[1]))
        w = a.w
        if kind[0] == "u":
            raise Broken("unsigned with.overflow intrinsic")
        if kind == "add":
            exact = a.lin.add(b.lin)
            tz = min(a.tz, b.tz)
        elif kind == "sub":
            exact = a.lin.sub(b.lin)
            tz = min(a.tz, b.tz)
        else:
            exact, _, _, tz = self.product(st, a, b, w)
        lo, hi = st.rng_lin_int(exact)
        tlo, thi = sgn_rng(w)
        if lo >= tlo and hi <= thi:
            st.env[i.res] = AggV([self.mk(st, w, exact, tz), BoolV(False)])
            return
        if hi < tlo or lo > thi:
            # definitely overflows: the value field is the wrapped result
            Mw = 1 << w
            k0, k1 = (lo - tlo) // Mw, (hi - tlo) // Mw
            if k0 == k1:
                st.env[i.res] = AggV([self.mk(st, w, exact.addc(-k0 * Mw), tz), BoolV(True)])
            else:
                st.env[i.res] = AggV([self.fresh(st, w, T("ovf", kind, exact.key()), tlo, thi), BoolV(True)])
            return
        cases = [[("lin", exact, tlo, thi)]]
        if lo < tlo:
            cases.append([("lin", exact, None, tlo - 1), ("src", exact)])
        if hi > thi:
            cases.append([("lin", exact, thi + 1, None), ("src", exact)])
        raise Split(cases, "overflow")

    def srcline(self, i):
        d = self.mod.md.get(i.dbg) if i.dbg is not None else None
        if d and d.get("k") == "loc":
            return "%s:%s" % (d.get("line"), d.get("column", ""))
        return i.line

    def count_zeros(self, st, i, leading, args):
        a = self.as_int(st, self.val(st, args[0]))
        zero_poison = args[1].val
        w = a.w
        ul, lo, hi = self.uview(st, a)
        if lo == 0 and hi > 0:
            raise Split([[("lin", ul, 0, 0)], [("lin", ul, 1, None)]], "ctz-zero")
        if lo == 0 and hi == 0:
            if zero_poison:
                self.alarm(st, i, "ctlz-zero-poison", "count-zeros of 0 with is_zero_poison")
                raise Infeasible()
            st.env[i.res] = self.cint(w, w)
            return
        if leading:
            bl_lo, bl_hi = lo.bit_length(), hi.bit_length()
            if bl_lo == bl_hi:
                st.env[i.res] = self.cint(w, w - bl_lo)
                return
            cases = []
            for bl in range(bl_lo, bl_hi + 1):
                cases.append([("lin", ul, max(lo, 1 << (bl - 1)), min(hi, (1 << bl) - 1)), ("tag", ("bl", self.srcline(i), bl))])
            raise Split(cases, "ctlz")
        # cttz
        if a.tz and False:
            pass
        if lo == hi:
            st.env[i.res] = self.cint(w, tz_of(lo))
            return
        st.env[i.res] = self.fresh(st, w, T("cttz", a.lin.key()), a.tz, hi.bit_length() - 1)

    # ---- alarms
    def alarm(self, st, i, kind, detail):
        chain = IR.dbg_chain(self.mod, i.dbg)
        al = Alarm(kind, chain, i.line, st.fork(), detail)
        al.src = getattr(st, "src", None)
        self.res.alarms.append(al)
        self.res.trap_sites_seen.add(i.line)

    # ------------------------------------------------------------ floating point
    def fval(self, st, o):
        v = self.val(st, o)
        if not isinstance(v, FpV):
            raise Broken("expected floating value")
        return v

    def frng(self, st, v):
        if v.fsym is not None:
            return st.fb[v.fsym]
        return v.lo, v.hi, v.nan

    def F(self, st, kind, lo, hi, nan, term, xlin=None, slin=None):
        old = st.fb.get(term)
        if old is not None:
            lo = max(lo, old[0])
            hi = min(hi, old[1])
            nan = nan and old[2]
        if lo > hi and not nan:
            raise Infeasible()
        st.fb[term] = (lo, hi, nan)
        return FpV(kind, lo, hi, nan, term, xlin, term, slin)

    def fmk(self, st, kind, lo, hi, nan, term, xlin=None, slin=None):
        if kind == "float":
            lo = nxt(lo, False, kind) if lo == lo else lo
            hi = nxt(hi, True, kind) if hi == hi else hi
        return self.F(st, kind, lo, hi, nan, term, xlin, slin)

    def mant_ok(self, st, xlin, kind):
        """is the exact rational value representable in the format (normal range, enough mantissa)?"""
        p = 53 if kind == "double" else 24
        # find power of two scale making all coefficients integral
        den = xlin.d
        if den & (den - 1):
            return False
        lo, hi = st.rng_num(xlin)
        mx = max(abs(lo), abs(hi))
        if mx > (1 << p):          # every integer of magnitude <= 2^p is representable
            return False
        e = den.bit_length() - 1
        return e < (1000 if kind == "double" else 120)

    def x_sitofp(self, st, i):
        a = self.as_int(st, self.val(st, i.ops[0]))
        kind = i.ty.kind
        lo, hi = st.rng(a)
        xl = a.lin if self.mant_ok(st, a.lin, kind) else None
        flo, fhi = float(lo), float(hi)
        if kind == "double":
            if int(flo) > lo:
                flo = nxt(flo, False, kind)
            if int(fhi) < hi:
                fhi = nxt(fhi, True, kind)
            st.env[i.res] = self.F(st, kind, flo, fhi, False, T("sitofp", kind, a.lin.key()), xl, a.lin)
        else:
            # the conversion is the correctly rounded value and rounding is monotone: round the ends exactly
            elo, ehi = rn_exact(Fraction(lo), kind), rn_exact(Fraction(hi), kind)
            if elo is not None and ehi is not None:
                st.env[i.res] = self.F(st, kind, elo, ehi, False, T("sitofp", kind, a.lin.key()), xl, a.lin)
            else:
                st.env[i.res] = self.fmk(st, kind, f32round(flo), f32round(fhi), False, T("sitofp", kind, a.lin.key()), xl, a.lin)

    def x_uitofp(self, st, i):
        a = self.as_int(st, self.val(st, i.ops[0]))
        kind = i.ty.kind
        ul, lo, hi = self.uview(st, a)
        xl = ul if self.mant_ok(st, ul, kind) else None
        flo, fhi = float(lo), float(hi)
        if kind == "double":
            st.env[i.res] = self.F(st, kind, nxt(flo, False, kind), nxt(fhi, True, kind), False, T("uitofp", kind, ul.key()), xl)
        else:
            st.env[i.res] = self.fmk(st, kind, f32round(flo), f32round(fhi), False, T("uitofp", kind, ul.key()), xl)

    def x_fpext(self, st, i):
        a = self.fval(st, i.ops[0])
        lo, hi, nan = self.frng(st, a)
        if i.ty.kind == "x86_fp80":
            r = self.F(st, i.ty.kind, lo, hi, nan, T("fpext", a.term), a.xlin, a.slin)
            self.fp80src[r.term] = a
        else:
            # widening is the identity on values: the result shares the source's range symbol, so that a
            # comparison on the widened value refines the original (e.g. float range test done in double)
            r = FpV(i.ty.kind, lo, hi, nan, T("fpext", a.term), a.xlin, a.fsym, a.slin)
        st.env[i.res] = r

    def x_fptrunc(self, st, i):
        a = self.fval(st, i.ops[0])
        kind = i.ty.kind
        lo, hi, nan = self.frng(st, a)
        if a.kind == "x86_fp80":
            src = self.fp80src.get(a.term)
            if src is not None and src.kind == kind:
                st.env[i.res] = src      # widening then narrowing back is the identity
                return
            if a.xlin is None or not a.xlin.is_const():
                raise Broken("x86_fp80 arithmetic is not supported")
            fr = Fraction(a.xlin.c)
            x = fr.numerator / fr.denominator   # correctly rounded to binary64
            if kind == "float":
                raise Broken("fp80 -> float")
            st.env[i.res] = self.F(st, kind, x, x, False, T("cfp", repr(x)), Lin.const(Fraction(x)))
            return
        if kind == "float":
            xl = a.xlin if (a.xlin is not None and self.mant_ok(st, a.xlin, "float")) else None
            st.env[i.res] = self.fmk(st, kind, f32round(lo), f32round(hi), nan, T("fptrunc", a.term), xl)
            return
        raise Broken("fptrunc to %s" % kind)

    def x_fptosi(self, st, i):
        a = self.fval(st, i.ops[0])
        w = i.ty.bits
        lo, hi, nan = self.frng(st, a)
        tlo, thi = sgn_rng(w)
        if nan or lo < -float(1 << (w - 1)) - 0.0 or hi >= float(1 << (w - 1)) or math.isinf(lo) or math.isinf(hi):
            self.alarm(st, i, "fptosi-poison", "float to int conversion not proved in range [%r,%r] nan=%s" % (lo, hi, nan))
            if lo != lo or math.isinf(lo) or math.isinf(hi):
                raise Infeasible()
        ilo = max(tlo, math.trunc(lo))
        ihi = min(thi, math.trunc(hi))
        if a.xlin is not None:
            # xlin = I + f with integer-valued I and constant fraction f
            c = Fraction(a.xlin.c)
            fpart = c - (c.numerator // c.denominator)
            I = a.xlin.addc(-fpart)
            if I.integral_coefs():
                rlo, rhi = st.rng_raw(a.xlin)
                if rlo >= 0:
                    st.env[i.res] = self.mk(st, w, I)
                    return
                if rhi <= 0:
                    st.env[i.res] = self.mk(st, w, I.addc(1) if fpart != 0 else I)
                    return
                raise Split([[("lin", I, None, -1)], [("lin", I, 0, None)]], "fptosi-sign")
        st.env[i.res] = self.fresh(st, w, T("fptosi", w, a.term), ilo, ihi)

    def x_fptoui(self, st, i):
        raise Broken("fptoui")

    def _fbin(self, st, i, f, exact_rule):
        a = self.fval(st, i.ops[0])
        b = self.fval(st, i.ops[1])
        kind = i.ty.kind
        alo, ahi, an = self.frng(st, a)
        blo, bhi, bn = self.frng(st, b)
        return a, b, kind, alo, ahi, an, blo, bhi, bn

    @staticmethod
    def _safe(f, x, y):
        try:
            r = f(x, y)
        except (OverflowError, ZeroDivisionError):
            return None
        return r

    def fcorners(self, f, alo, ahi, blo, bhi):
        vals = []
        nan = False
        for x in (alo, ahi):
            for y in (blo, bhi):
                try:
                    r = f(x, y)
                except ZeroDivisionError:
                    r = float("nan")
                except OverflowError:
                    r = INF
                if r != r:
                    nan = True
                else:
                    vals.append(r)
        if not vals:
            return INF, -INF, True
        return min(vals), max(vals), nan

    def x_fadd(self, st, i, sub=False):
        a, b, kind, alo, ahi, an, blo, bhi, bn = self._fbin(st, i, None, None)
        if sub:
            blo, bhi = -bhi, -blo
        nan = an or bn
        if alo > ahi or blo > bhi:
            st.env[i.res] = self.F(st, kind, INF, -INF, True, T("fadd", a.term, b.term))
            return
        if (alo == -INF and bhi == INF) or (ahi == INF and blo == -INF):
            nan = True
        lo = alo + blo if not (math.isinf(alo) and math.isinf(blo) and alo != blo) else -INF
        hi = ahi + bhi if not (math.isinf(ahi) and math.isinf(bhi) and ahi != bhi) else INF
        xl = None
        if a.xlin is not None and b.xlin is not None and not an and not bn:
            e = a.xlin.sub(b.xlin) if sub else a.xlin.add(b.xlin)
            if self.mant_ok(st, e, kind):
                xl = e
        t = T("fsub" if sub else "fadd", a.term, b.term) if sub else T("fadd", *sorted([a.term, b.term]))
        st.env[i.res] = self.fmk(st, kind, lo, hi, nan, t, xl)

    def x_fsub(self, st, i):
        return self.x_fadd(st, i, True)

    def x_fmul(self, st, i):
        a, b, kind, alo, ahi, an, blo, bhi, bn = self._fbin(st, i, None, None)
        nan = an or bn
        if alo > ahi or blo > bhi:
            st.env[i.res] = self.F(st, kind, INF, -INF, True, T("fmul", a.term, b.term))
            return

        def mulf(x, y):
            if (x == 0 and math.isinf(y)) or (y == 0 and math.isinf(x)):
                return float("nan")
            return x * y
        lo, hi, n2 = self.fcorners(mulf, alo, ahi, blo, bhi)
        # 0 * inf inside the ranges
        if (alo <= 0 <= ahi and (math.isinf(blo) or math.isinf(bhi))) or (blo <= 0 <= bhi and (math.isinf(alo) or math.isinf(ahi))):
            n2 = True
        xl = None
        if a.xlin is not None and b.xlin is not None and not an and not bn:
            if b.xlin.is_const():
                e = a.xlin.scale(b.xlin.c)
            elif a.xlin.is_const():
                e = b.xlin.scale(a.xlin.c)
            else:
                e = None
            if e is not None and self.mant_ok(st, e, kind):
                xl = e
        sl = None
        if a.slin is not None and blo == bhi and 1e-300 < blo < 1e300 and max(abs(alo), abs(ahi)) < 1e300:
            sl = a.slin
        elif b.slin is not None and alo == ahi and 1e-300 < alo < 1e300 and max(abs(blo), abs(bhi)) < 1e300:
            sl = b.slin
        st.env[i.res] = self.fmk(st, kind, lo, hi, nan or n2, T("fmul", *sorted([a.term, b.term])), xl, sl)

    def x_fdiv(self, st, i):
        a, b, kind, alo, ahi, an, blo, bhi, bn = self._fbin(st, i, None, None)
        nan = an or bn
        t = T("fdiv", a.term, b.term)
        if alo > ahi or blo > bhi:
            st.env[i.res] = self.F(st, kind, INF, -INF, True, t)
            return
        if blo <= 0 <= bhi:
            # divisor may be zero: result unbounded
            st.env[i.res] = self.F(st, kind, -INF, INF, True, t)
            return

        def divf(x, y):
            if math.isinf(x) and math.isinf(y):
                return float("nan")
            if math.isinf(y):
                return 0.0 if True else 0.0
            return x / y
        lo, hi, n2 = self.fcorners(divf, alo, ahi, blo, bhi)
        if (math.isinf(alo) or math.isinf(ahi)) and (math.isinf(blo) or math.isinf(bhi)):
            n2 = True
        xl = None
        if a.xlin is not None and b.xlin is not None and b.xlin.is_const() and not an and not bn:
            e = a.xlin.scale(1 / Fraction(b.xlin.c))
            if self.mant_ok(st, e, kind):
                xl = e
        sl = None
        if a.slin is not None and blo == bhi and 0 < blo < 1e300 and blo > 1e-300:
            sl = a.slin
        st.env[i.res] = self.fmk(st, kind, lo, hi, nan or n2, t, xl, sl)

    def x_fneg(self, st, i):
        a = self.fval(st, i.ops[0])
        lo, hi, nan = self.frng(st, a)
        st.env[i.res] = self.F(st, a.kind, -hi, -lo, nan, T("fneg", a.term), a.xlin.neg() if a.xlin is not None else None)

    def f_fabs(self, st, i, args):
        a = self.fval(st, args[0])
        lo, hi, nan = self.frng(st, a)
        if lo >= 0:
            nlo, nhi = lo, hi
        elif hi <= 0:
            nlo, nhi = -hi, -lo
        else:
            nlo, nhi = 0.0, max(-lo, hi)
        st.env[i.res] = self.F(st, a.kind, nlo, nhi, nan, T("fabs", a.term))

    def f_fmuladd(self, st, i, args):
        a = self.fval(st, args[0])
        b = self.fval(st, args[1])
        c = self.fval(st, args[2])
        kind = a.kind
        alo, ahi, an = self.frng(st, a)
        blo, bhi, bn = self.frng(st, b)
        clo, chi, cn = self.frng(st, c)
        nan = an or bn or cn
        t = T("fmuladd", a.term, b.term, c.term)
        if alo > ahi or blo > bhi or clo > chi:
            st.env[i.res] = self.F(st, kind, INF, -INF, True, t)
            return

        def mulf(x, y):
            if (x == 0 and math.isinf(y)) or (y == 0 and math.isinf(x)):
                return float("nan")
            return x * y
        plo, phi, n2 = self.fcorners(mulf, alo, ahi, blo, bhi)
        if n2 or (plo == -INF and chi == INF) or (phi == INF and clo == -INF):
            nan = True
        # fused or unfused: widen one ulp outward to cover both roundings
        lo = plo + clo if not (math.isinf(plo) and math.isinf(clo) and plo != clo) else -INF
        hi = phi + chi if not (math.isinf(phi) and math.isinf(chi) and phi != chi) else INF
        lo = nxt(lo, False, kind)
        hi = nxt(hi, True, kind)
        xl = None
        contraction_safe = False
        if a.xlin is not None and b.xlin is not None and c.xlin is not None and not nan:
            p = None
            if b.xlin.is_const():
                p = a.xlin.scale(b.xlin.c)
            elif a.xlin.is_const():
                p = b.xlin.scale(a.xlin.c)
            if p is not None and self.mant_ok(st, p, kind):
                e = p.add(c.xlin)
                if self.mant_ok(st, e, kind):
                    xl = e
                    contraction_safe = True
        if not contraction_safe:
            # product by a power of two is exact when it does not overflow/underflow: then fused == unfused
            for x, (ylo, yhi) in ((a, (blo, bhi)), (b, (alo, ahi))):
                xlo, xhi, _ = self.frng(st, x)
                if xlo == xhi and xlo > 0 and math.frexp(xlo)[0] == 0.5:
                    mx = max(abs(ylo), abs(yhi))
                    if mx * xlo < 1.7e308 and not math.isinf(mx):
                        # underflow: only matters if tiny; product of |y| >= denormal by 2^k>=1 never underflows
                        if xlo >= 1.0:
                            contraction_safe = True
        if contraction_safe and not nan and not any(math.isinf(v) for v in (plo, phi, clo, chi)):
            # the product is exact, so fused and unfused evaluation both return RN(product + c): round the exact sums of the interval
            # ends (RN is monotone) instead of widening by an ulp
            elo = rn_exact(Fraction(plo) + Fraction(clo), kind)
            ehi = rn_exact(Fraction(phi) + Fraction(chi), kind)
            if elo is not None and ehi is not None:
                st.notes.append(("fmuladd", i.line, contraction_safe))
                st.env[i.res] = self.F(st, kind, elo, ehi, nan, t, xl)
                return
        st.notes.append(("fmuladd", i.line, contraction_safe))
        st.env[i.res] = self.fmk(st, kind, lo, hi, nan, t, xl)

    def f_sqrt(self, st, i, args):
        a = self.fval(st, args[0])
        lo, hi, nan = self.frng(st, a)
        t = T("sqrt", a.term)
        if lo > hi:
            st.env[i.res] = self.F(st, a.kind, INF, -INF, True, t)
            return
        if lo < 0 <= hi and a.slin is not None and not nan:
            L = a.slin
            raise Split([[("lin", L, None, -1), ("f", a.fsym, lo, nxt(0.0, False, a.kind), False)],
                         [("lin", L, 0, None), ("f", a.fsym, 0.0, hi, False)]], "sqrt-sign")
        n2 = nan or lo < 0
        if hi < 0:
            st.env[i.res] = self.F(st, a.kind, INF, -INF, True, t)
            return
        slo = math.sqrt(max(lo, 0.0))
        shi = math.sqrt(hi) if not math.isinf(hi) else INF
        # the root of a non-negative argument has the sign of the argument (zero exactly when the argument is zero; the root of a
        # positive floating-point number never underflows): keep the sign-equivalent integer form
        sl = a.slin if (lo >= 0 and not n2) else None
        st.env[i.res] = self.fmk(st, a.kind, slo, shi, n2, t, None, sl)

    def x_fcmp(self, st, i):
        p = next(iter(i.attrs))
        a = self.fval(st, i.ops[0])
        b = self.fval(st, i.ops[1])
        if p in ("true", "false"):
            st.env[i.res] = BoolV(p == "true")
            return
        st.env[i.res] = BoolV(self.fcmp_tv(st, p, a, b), ("fcmp", p, a, b))

    def fcmp_tv(self, st, p, a, b):
        alo, ahi, an = self.frng(st, a)
        blo, bhi, bn = self.frng(st, b)
        ae = alo > ahi
        be = blo > bhi
        maybe_nan = an or bn
        only_nan = ae or be
        if p == "ord":
            tv = False if only_nan else (None if maybe_nan else True)
        elif p == "uno":
            tv = True if only_nan else (None if maybe_nan else False)
        else:
            ordered = p[0] == "o"
            rel = p[1:]
            if only_nan:
                tv = not ordered
            else:
                if rel == "lt":
                    r = True if ahi < blo else (False if alo >= bhi else None)
                elif rel == "le":
                    r = True if ahi <= blo else (False if alo > bhi else None)
                elif rel == "gt":
                    r = True if alo > bhi else (False if ahi <= blo else None)
                elif rel == "ge":
                    r = True if alo >= bhi else (False if ahi < blo else None)
                elif rel == "eq":
                    r = True if (alo == ahi == blo == bhi) else (False if (ahi < blo or alo > bhi) else None)
                elif rel == "ne":
                    r = False if (alo == ahi == blo == bhi) else (True if (ahi < blo or alo > bhi) else None)
                else:
                    raise Broken("fcmp predicate %s" % p)
                if not maybe_nan:
                    tv = r
                else:
                    # NaN possible: ordered -> false on NaN ; unordered -> true on NaN
                    if ordered:
                        tv = False if r is False else None
                    else:
                        tv = True if r is True else None
        return tv
