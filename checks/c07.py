"""C07: no public entry point has UB, traps or out-of-bounds reads.

Decided by abstract interpretation (fxai) of every wrapper of the ENTRY table: every sanitizer
trap site and every table load is an obligation; an obligation is discharged when the abstract
state excludes the trap edge (possibly after value partitioning); a violation needs a concrete
witness that reaches the same trap site in the IR.
"""
import sys
import os
from . import common
from fxai import runner
from fxai.interp import Broken

# wrappers whose code differs between configurations (sqrt dispatch, <bit>/<utility> replacements)
DELTA_K17A = ["w_sqrt", "w_sqrt_abacus", "w_hypot", "w_asin", "w_acos"]
DELTA_K20 = ["w_sqrt", "w_hypot", "w_asin", "w_acos", "w_sqrt_aprox", "w_hypot_aprox"] + \
            ["w_%s_%s" % (f, t) for f in ("ctor", "i2f", "mk", "f2i", "cast", "f2a") for t in
             ("i8", "i16", "i32", "i64", "u8", "u16", "u32", "u64")] + ["w_lit_u"]

MIN_WRAPPERS = 255
MIN_SITES = 1300


def run(tier, seed):
    V = common.Verdict("C07", tier, seed)
    # K20C: the arms std::is_constant_evaluated() selects in a constant evaluation, compiled as ordinary code (DESIGN 11.11)
    plan = [("K17", None), ("K17A", DELTA_K17A if tier == "quick" else None), ("K20", DELTA_K20 if tier == "quick" else None),
            ("K20C", DELTA_K20 if tier == "quick" else None)]
    n_wr = 0
    n_sites = 0
    per_cfg = {}
    control_ok = False
    skipped = {}
    for cfg, names in plan:
        try:
            if names is not None:
                names = names + (["c_control_overflow"] if cfg != "K17" else [])
            built, out = runner.run_all(cfg, names=names, seed=seed)
        except Broken as e:
            V.broke(str(e))
            continue
        except Exception as e:  # build failure etc.
            V.broke("%s: %s" % (cfg, str(e)[:1500]))
            continue
        skipped.update(built.skipped)
        st_cfg = {"wrappers": 0, "sites": 0, "paths": 0, "states": 0, "alarms": 0, "violations": 0, "discharged_by_partition": 0}
        for name, alarms, stats, err in out:
            if err:
                V.broke("%s/%s: %s" % (cfg, name, err))
                continue
            if name == "c_control_overflow":
                if any(a.status == "violation" and a.kind == "add-overflow" for a in alarms):
                    control_ok = True
                continue
            st_cfg["wrappers"] += 1
            st_cfg["sites"] += stats.get("sites", 0)
            st_cfg["paths"] += stats.get("paths", 0)
            st_cfg["states"] += stats.get("states", 0)
            bad_lines = set()
            for a in alarms:
                st_cfg["alarms"] += 1
                if a.status == "violation":
                    st_cfg["violations"] += 1
                    bad_lines.add(a.line)
                    chain = " <- ".join("%s@%s:%d" % (c[0], os.path.basename(c[1]), c[2]) for c in a.chain)
                    text = "%s in %s(%s) [%s]: %s; chain %s; box %s %s" % (
                        a.kind, name, ", ".join(map(repr, a.witness)), cfg, a.where, chain, a.box, a.fbox or "")
                    V.violation(a.kind, a.site, text, {"wrapper": name, "args": list(a.witness), "config": cfg,
                                                       "expected": a.kind, "where": a.where})
                elif a.status == "inconclusive":
                    bad_lines.add(a.line)
                    V.inconc("%s/%s: %s at %s not discharged and no witness found; box %s %s %s" % (
                        cfg, name, a.kind, a.where, a.box, a.fbox or "", a.detail))
                elif a.status == "discharged":
                    st_cfg["discharged_by_partition"] += 1
            ns = stats.get("sites", 0)
            V.oblige(True, ns - len(bad_lines))
            V.oblige(False, len(bad_lines))
            if len(V.samples) < 8 and stats.get("paths"):
                V.sample({"config": cfg, "wrapper": name, "paths": stats.get("paths"), "trap_and_load_sites": ns,
                          "alarm_sites": len(bad_lines), "states": stats.get("states")})
        per_cfg[cfg] = st_cfg
        n_wr += st_cfg["wrappers"]
        n_sites += st_cfg["sites"]
    if not control_ok:
        V.broke("positive control c_control_overflow (raw a+b) was not reported reachable")
    if per_cfg.get("K17", {}).get("wrappers", 0) < MIN_WRAPPERS:
        V.broke("only %d wrappers analysed under K17 (minimum %d)" % (per_cfg.get("K17", {}).get("wrappers", 0), MIN_WRAPPERS))
    if per_cfg.get("K17", {}).get("sites", 0) < MIN_SITES:
        V.broke("only %d trap/load sites under K17 (minimum %d)" % (per_cfg.get("K17", {}).get("sites", 0), MIN_SITES))
    expl = ("Every wrapper of the ENTRY table (public API x argument carriers) is fully inlined to LLVM IR with every C++ UB condition "
            "of the kinds named in C07 made explicit as a branch to llvm.ubsantrap; each trap site and each table load is an obligation. "
            "fxai explores all paths over the whole precondition box (fixed_t in [-M,M], integral and floating arguments over their whole "
            "type, shift counts in [INT_MIN,63]) and discharges an obligation when the abstract state makes the trap edge infeasible, if "
            "needed after value partitioning of symbols in the alarm's backward slice. A violation is reported only with a concrete witness "
            "that reaches the same trap in the IR; anything neither discharged nor witnessed is INCONCLUSIVE (exit 2). "
            "Obligations count static trap/load sites per wrapper and configuration; undischarged ones are the sites listed as findings.")
    return V.finish("proof", expl, "./fx check C07 --tier %s" % tier,
                    extra={"configs": per_cfg, "wrappers": n_wr, "not_instantiable": skipped,
                           "positive_control": control_ok,
                           "rule": "trap-site reachability over all paths of every public entry point"})
