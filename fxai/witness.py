"""Candidate inputs for an alarm and their concrete confirmation."""
import math
import random
import struct
from .conc import Conc

INF = float("inf")


def int_cands(lo, hi, rnd, nrand=6):
    s = {lo, hi}
    for d in (1, 2, 3):
        if lo + d <= hi:
            s.add(lo + d)
        if hi - d >= lo:
            s.add(hi - d)
    for v in (0, 1, -1, 2, -2, 65536, -65536, 65535, -65535, 65537, (1 << 31) - 1, -(1 << 31), 1 << 31,
              (1 << 47), -(1 << 47), (1 << 48), -(1 << 48), (1 << 46), (1 << 30), (1 << 32), -(1 << 32),
              (1 << 62), -(1 << 62), 102944, 205887, 411774, 360, 361, -360):
        if lo <= v <= hi:
            s.add(v)
    s.add((lo + hi) // 2)
    # powers of two around the bounds
    for b in range(0, 64, 3):
        for v in (1 << b, -(1 << b), (1 << b) - 1, (1 << b) + 1):
            if lo <= v <= hi:
                s.add(v)
    for _ in range(nrand):
        s.add(rnd.randint(lo, hi))
        # log-uniform magnitude
        if hi > 0:
            m = rnd.randint(0, max(0, hi.bit_length() - 1))
            v = rnd.randint(1 << m, min(hi, (1 << (m + 1)) - 1)) if (1 << m) <= hi else hi
            if lo <= v <= hi:
                s.add(v)
        if lo < 0:
            m = rnd.randint(0, max(0, (-lo).bit_length() - 1))
            v = -rnd.randint(1 << m, min(-lo, (1 << (m + 1)) - 1)) if (1 << m) <= -lo else lo
            if lo <= v <= hi:
                s.add(v)
    return sorted(s)


def f_cands(lo, hi, nan, rnd, kind, nrand=6):
    s = []
    if lo <= hi:
        for v in (lo, hi, 0.0, -0.0, 0.5, -0.5, 1.0, -1.0, 2147483647.0, -2147483647.0, 2147483648.0, -2147483648.0,
                  2147483646.5, 1e10, -1e10, 1e19, -1e19, 1e300, -1e300, INF, -INF, 32768.5, 1e-5, -1e-5, 3.4e38, -3.4e38):
            if lo <= v <= hi:
                s.append(v)
        for v in (lo, hi):
            if not math.isinf(v):
                s.append(math.nextafter(v, 0.0))
        # every binade of interest once, with a full random significand (both parities of the last bit), in the value's own format
        for e in range(-24, 40):
            for sg in (1.0, -1.0):
                m = 1.0 + rnd.random()
                v = sg * m * 2.0 ** e
                if kind == "float":
                    b_ = struct.unpack("<I", struct.pack("<f", v))[0]
                    for b2 in (b_ | 1, b_ & ~1):
                        v2 = struct.unpack("<f", struct.pack("<I", b2))[0]
                        if lo <= v2 <= hi:
                            s.append(v2)
                else:
                    b_ = struct.unpack("<Q", struct.pack("<d", v))[0]
                    for b2 in (b_ | 1, b_ & ~1):
                        v2 = struct.unpack("<d", struct.pack("<Q", b2))[0]
                        if lo <= v2 <= hi:
                            s.append(v2)
        for _ in range(nrand):
            a = max(lo, -1e308)
            b = min(hi, 1e308)
            s.append(rnd.uniform(a, b))
            # log scale
            e = rnd.uniform(-20, 70)
            v = 2.0 ** e * rnd.choice((1, -1))
            if lo <= v <= hi:
                s.append(v)
    if nan:
        s.append(float("nan"))
    return s


def rem_candidates(state, k, lo, hi, consts=()):
    """parameter values that put a remainder symbol of the path at its (narrow) bounds: p = sigma*(s - c + j*m)"""
    from .lin import term_args
    out = set()
    pk = "p%d" % k
    for s_, (a, z) in state.bounds.items():
        ta = term_args(s_) if isinstance(s_, str) else None
        if ta is None or ta[0] != "rem+":
            continue
        cn, d, items = ta[1]
        items = dict(items)
        if d != 1 or set(items) != {pk} or abs(items[pk]) != 1:
            continue
        m = ta[2]
        sigma = items[pk]
        svs = {a, z, (a + z) // 2}
        for c_ in consts:
            for d_ in (-1, 0, 1):
                if a <= c_ + d_ <= z:
                    svs.add(c_ + d_)
        for sv in svs:
            for j in (0, 1, 2, 3, 5, 17, 1000, 10 ** 6, (hi // m) if m else 0, ((hi // m) - 1) if m else 0, (lo // m) if m else 0):
                for jj in (j, -j):
                    v = sigma * (sv - cn + jj * m)
                    if lo <= v <= hi:
                        out.add(v)
    return out


def candidates(an, state, rnd, limit=4000):
    """yield argument tuples drawn from the refined box of an alarm/path state"""
    per = []
    for k, (pn, ty) in enumerate(an.fn.params):
        if ty.kind == "int":
            lo, hi = state.bounds["p%d" % k]
            consts = getattr(an, "cmp_consts", ())
            extra = set()
            for c_ in consts:
                for v in (c_, c_ + 1, c_ - 1, -c_, -c_ + 1, -c_ - 1):
                    if lo <= v <= hi:
                        extra.add(v)
            per.append(sorted(set(int_cands(lo, hi, rnd)) | rem_candidates(state, k, lo, hi, consts) | extra))
        else:
            lo, hi, nan = state.fb["f%d" % k]
            per.append(f_cands(lo, hi, nan, rnd, ty.kind))
    if not per:
        yield ()
        return
    if len(per) == 1:
        for v in per[0]:
            yield (v,)
        return
    total = 1
    for p in per:
        total *= len(p)
    if total <= limit:
        def rec(i, acc):
            if i == len(per):
                yield tuple(acc)
                return
            for v in per[i]:
                yield from rec(i + 1, acc + [v])
        yield from rec(0, [])
    else:
        # corners first, then random combinations
        small = [[p[0], p[-1], p[len(p) // 2]] for p in per]

        def rec(i, acc):
            if i == len(small):
                yield tuple(acc)
                return
            for v in small[i]:
                yield from rec(i + 1, acc + [v])
        yield from rec(0, [])
        for _ in range(limit):
            yield tuple(rnd.choice(p) for p in per)


def hits(outcome, line):
    if outcome[0] == "trap":
        return outcome[2].line == line
    if outcome[0] == "oob":
        return outcome[1].line == line
    if outcome[0] == "poison":
        return outcome[2].line == line
    return False


def find_witness(an, alarm, rnd, limit=4000):
    cx = Conc(an)
    other = {}
    for args in candidates(an, alarm.state, rnd, limit):
        out = cx.run(args)
        if hits(out, alarm.line):
            return args, other
        if out[0] in ("trap", "oob", "poison"):
            ln = out[2].line if out[0] != "oob" else out[1].line
            other.setdefault(ln, args)
    return None, other
