"""C13: sqrt: NaN for negatives, 0 at 0, non-negative and bounded on the domain (decided for both algorithms);
within one ulp / monotone / exact on squares decided for the std::sqrt algorithm by a shape lemma and for the abacus loop by an
inductive invariant checked by abstract execution of one iteration per digit position (checks/isqrt.py)."""
from . import common, lib
from .lib import M, FIN, ANYFX, E, sym
from fxai.interp import Broken
from fxai.state import IntV, FpV
from fxai.lin import term_args, Lin

T47 = (1 << 47) - 1


def shape_std(p):
    """is the returned value fptosi(sqrt(sitofp(x)/65536) * 65536 + 0.5) ?  (fused or not)"""
    r = p.ret
    if not isinstance(r, IntV):
        return False, "non-integer"
    sg = r.lin.single()
    if sg is None or sg[1] != 1 or r.lin.cn != 0:
        return False, "result %s is not a single conversion" % (r.lin,)
    ta = term_args(sg[0])
    if ta is None or ta[0] != "fptosi":
        return False, "result is not a float->int conversion"
    t = term_args(ta[2])
    if t is None:
        return False, "?"
    c65536 = None

    def is_const(h, v):
        a = term_args(h)
        return a is not None and a[0] == "cfp" and a[-1] == repr(float(v))
    if t[0] == "fmuladd":
        a, b, c = t[1], t[2], t[3]
        if not is_const(c, 0.5):
            return False, "rounding offset is not +0.5"
        s_, k_ = (a, b) if is_const(b, 65536.0) else ((b, a) if is_const(a, 65536.0) else (None, None))
        if s_ is None:
            return False, "scale is not 65536"
    elif t[0] == "fadd":
        xs = [t[1], t[2]]
        half = [h for h in xs if is_const(h, 0.5)]
        other = [h for h in xs if not is_const(h, 0.5)]
        if len(half) != 1 or len(other) != 1:
            return False, "rounding offset is not +0.5"
        m = term_args(other[0])
        if m is None or m[0] != "fmul":
            return False, "no scaling multiply"
        s_ = m[1] if is_const(m[2], 65536.0) else (m[2] if is_const(m[1], 65536.0) else None)
        if s_ is None:
            return False, "scale is not 65536"
    else:
        return False, "unexpected rounding expression %s" % t[0]
    sq = term_args(s_)
    if sq is None or sq[0] != "sqrt":
        return False, "no sqrt"
    dv = term_args(sq[1])
    if dv is None or dv[0] != "fdiv" or not is_const(dv[2], 65536.0):
        return False, "argument is not x/65536"
    cv = term_args(dv[1])
    if cv is None or cv[0] != "sitofp" or cv[1] != "double" or cv[2] != sym(0).key():
        return False, "argument is not converted from the raw value"
    return True, ""


def run(tier, seed):
    V = common.Verdict("C13", tier, seed)
    x = sym(0)
    plan = [("K17", ["w_sqrt", "w_sqrt_std", "w_sqrt_abacus"]), ("K17A", ["w_sqrt", "w_sqrt_abacus"]), ("K20", ["w_sqrt", "w_sqrt_std"])]
    if tier == "quick":
        plan = [("K17", ["w_sqrt", "w_sqrt_std"]), ("K17A", ["w_sqrt", "w_sqrt_abacus"]), ("K20", ["w_sqrt"])]
    shape_done = 0
    abacus_done = []
    for cfg, ws in plan:
        try:
            ctx = lib.Ctx(cfg, [], only=set(ws))
            for w in ws:
                def bad(a, o):
                    if o[0] != "ret":
                        return True
                    if a[0] < 0:
                        return o[1] != M
                    if a[0] == 0:
                        return o[1] != 0
                    if a[0] <= T47:
                        return not (0 <= o[1] <= (1 << 32))
                    return False
                # one analysis per region box: floating intermediates are evaluated on the region itself
                for nm, box, exp in (("x<0", ("i", -M, -1), ("const", M)), ("x==0", ("i", 0, 0), ("const", 0)),
                                     ("0<x<2^31", ("i", 1, T47), ("range", 0, 1 << 32))):
                    rr = ctx.run(w, [box])
                    viol = [a for a in rr.alarms if a.status == "violation"]
                    for a in viol:
                        V.oblige(False)
                        V.violation(a.kind, a.site, "%s in %s(%s) [%s] at %s (region %s)" % (a.kind, w, a.witness, cfg, a.where, nm),
                                    lib.rp(rr, a.witness, a.kind))
                    if not rr.paths and viol:
                        continue      # every execution of this region ends in the reported trap
                    lib.check_regions(V, rr, [(nm, [], exp)], bad, "sqrt: NaN below 0, 0 at 0, 0 <= result <= 2^16 on 0 <= x < 2^31 [%s]" % w, site=w[2:])
                r = ctx.run(w, [("i", 1, T47)])
                for a in r.alarms:
                    if a.status == "violation":
                        V.oblige(False)
                        V.violation(a.kind, a.site, "%s in %s(%s) [%s] at %s" % (a.kind, w, a.witness, cfg, a.where), lib.rp(r, a.witness, a.kind))
                # the abacus algorithm: inductive loop invariant, one abstract iteration per digit position
                uses_abacus = (w == "w_sqrt_abacus") or (w == "w_sqrt" and cfg == "K17A")
                if uses_abacus:
                    from . import isqrt
                    import math
                    box = ("i", 1, (1 << 48) - 1)
                    rb = ctx.run(w, [box])
                    n0 = V.obligations
                    inf = isqrt.prove(V, rb, cfg, box, w[2:])
                    okn = inf is not None and inf["N"] == str(x.scale(65536)) and inf["N_range"][0] >= 0 and inf["N_range"][1] < (1 << 64)
                    V.oblige(okn)
                    if okn:
                        abacus_done.append({"wrapper": w, "config": cfg, "iterations_checked": inf["steps"], "digit_positions": inf["kmax"] + 1,
                                            "entry_classes": len(inf["classes"])})
                    else:
                        # a concrete argument whose result is not floor(sqrt(65536 raw)) makes it a violation
                        def bad_isqrt(a, o):
                            return o[0] != "ret" or o[1] != math.isqrt(a[0] << 16)
                        import random
                        hit = None
                        rnd = random.Random(V.seed)
                        for p_ in rb.paths[:200]:
                            args, out = lib.search(rb, p_.state, bad_isqrt, rnd, limit=60)
                            if args is not None:
                                hit = (args, out)
                                break
                        if hit:
                            V.violation("sqrt(x) within one ulp below the real square root (abacus)", w[2:],
                                        "%s(%d) [%s] %s but floor(sqrt(65536*raw)) = %d" % (w, hit[0][0], cfg, lib.out_str(hit[1]), math.isqrt(hit[0][0] << 16)),
                                        lib.rp(rb, hit[0], "abacus isqrt"))
                        elif inf is not None:
                            V.inconc("%s [%s]: the loop computes floor(sqrt(N)) for N = %s, not for 65536*raw" % (w, cfg, inf["N"]))
                # the std algorithm: shape lemma on the non-NaN paths of the domain
                uses_std = (w == "w_sqrt_std") or (w == "w_sqrt" and cfg in ("K17", "K20"))
                if uses_std:
                    for p in r.paths:
                        s2 = lib.feasible_with(p.state, [(x, 1, T47)])
                        if s2 is None:
                            continue
                        ok, why = shape_std(p)
                        V.oblige(ok)
                        shape_done += 1
                        if not ok:
                            # a different expression: an argument whose result is a whole ulp or more from the real root makes it a violation
                            import random

                            def bad_ulp(a, o):
                                if o[0] != "ret" or a[0] <= 0 or a[0] > T47:
                                    return False
                                n_ = a[0] << 16
                                return not (max(o[1] - 1, 0) ** 2 < n_ < (o[1] + 1) ** 2 or o[1] * o[1] == n_)
                            args, out = lib.search(r, p.state, bad_ulp, random.Random(V.seed), limit=4000)
                            if args is not None:
                                import math
                                V.violation("sqrt(x) within one ulp of the real square root (std::sqrt algorithm)", w[2:],
                                            "%s(%d) [%s] %s but sqrt(65536*raw) = %d.." % (w, args[0], cfg, lib.out_str(out), math.isqrt(args[0] << 16)),
                                            lib.rp(r, args, "std sqrt one ulp"))
                            else:
                                V.inconc("%s [%s]: the std::sqrt result is not computed by the expected expression (%s): the one-ulp clause is "
                                         "not decided for this shape; path %s" % (w, cfg, why, lib.describe_path(p)))
        except Broken as e:
            V.broke("%s: %s" % (cfg, e))
    if shape_done == 0:
        V.broke("no std::sqrt path analysed")
    expl = ("DECIDED for detail::sqrt_std_math, detail::sqrt_abacus and the dispatching sqrt in the configurations that select them: x < 0 "
            "returns the NaN constant, x == 0 returns 0, for 0 < x < 2^31 the result lies in [0, 2^32] raw (abacus: the loop is unrolled "
            "abstractly per bit-length class with joins on states that agree on loop control). For the std::sqrt algorithm a shape lemma: the "
            "returned value number is fptosi(fma_or_mul_add(sqrt(sitofp(raw)/65536.0), 65536.0, +0.5)); sitofp is exact below 2^53, the "
            "division and multiplication by 2^16 are exact, sqrt is correctly rounded, adding 0.5 and truncating rounds to nearest, so "
            "|result - 65536*sqrt(x)| <= 0.5 + 2^-19 < 1 ulp, the map is a composition of non-decreasing maps (monotone) and exact on squares. "
            "For the abacus algorithm an inductive invariant: at the loop head with pwr4 == 4^k, scaled == N - a^2, result == 2^(k+1) a, "
            "a^2 <= N < (a + 2^(k+1))^2 (N = 65536 raw, a the partial root, a multiple of 2^(k+1)). a^2 is carried by an opaque symbol AA with "
            "linear consequences; for every digit position k = 31..0 one loop iteration is executed abstractly from that head state and every "
            "path to the back edge must deliver (a + c, AA + 2 c a + c^2) with c in {0, 2^k} satisfying the invariant for k-1 (the binomial "
            "identity is the only non-linear fact used); the k == 0 iteration leaves the loop returning r = a + c with r^2 <= N < (r+1)^2; every "
            "first arrival at the loop satisfies the invariant with a == 0. Hence sqrt_abacus(raw) == floor(sqrt(65536 raw)) for 0 < raw < 2^48: "
            "less than one ulp below the real root, non-decreasing, exact on squares. Together with the std::sqrt shape lemma the two algorithms "
            "differ by at most one ulp. Every clause of C13 is decided.")
    if not abacus_done:
        V.broke("no abacus loop analysed")
    return V.finish("proof", expl, "./fx check C13 --tier %s" % tier, extra={"plan": plan, "std_paths_with_shape_lemma": shape_done, "abacus_invariant": abacus_done})
