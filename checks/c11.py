"""C11: atan odd; atan2 axis values and quadrant signs (decided). Accuracy, |atan| <= pi/2 and near-monotonicity are not decided."""
from . import common, lib
from .lib import M, FIN, E, sym
from .c09 import const_of
from fxai.interp import Broken

T47 = (1 << 47) - 1
D = ("i", -T47, T47)
EXTRA = [
    E("w_phi", [], "fx", "return phi.v;"),
    E("w_pidiv2", [], "fx", "return fixpidiv2.v;"),
    E("w_negatanneg", ["fx"], "fx", "return (-atan(-as_fixed(a))).v;"),
]


def run(tier, seed):
    V = common.Verdict("C11", tier, seed)
    configs = ["K17", "K20"]
    for cfg in configs:
        try:
            ctx = lib.Ctx(cfg, EXTRA, only={"w_atan", "w_atan2", "w_phi", "w_pidiv2", "w_negatanneg"})
            phi = const_of(ctx, "w_phi")
            pd2 = const_of(ctx, "w_pidiv2")
            # oddness on the property's domain
            ra = ctx.run("w_atan", [D])
            lib.check_equiv(V, ra, ctx.run("w_negatanneg", [D]), "atan(-x) == -atan(x)", site="atan")
            for a in ra.alarms:
                if a.status == "violation":
                    V.oblige(False)
                    V.violation(a.kind, a.site, "%s in w_atan(%s) at %s" % (a.kind, a.witness, a.where), lib.rp(ra, a.witness, a.kind))
                elif a.status == "inconclusive":
                    V.inconc("w_atan: %s at %s unresolved" % (a.kind, a.where))
            # atan2(y, x): parameter 0 is y, parameter 1 is x
            y, x = sym(0), sym(1)
            boxes = [
                ("x==0,y>0", [("i", 1, T47), ("i", 0, 0)], ("const", pd2)),
                ("x==0,y<0", [("i", -T47, -1), ("i", 0, 0)], ("const", -pd2)),
                ("x==0,y==0", [("i", 0, 0), ("i", 0, 0)], ("const", M)),
                ("y==0,x>0", [("i", 0, 0), ("i", 1, T47)], ("const", 0)),
                ("y==0,x<0", [("i", 0, 0), ("i", -T47, -1)], ("const", phi)),
                ("y>0,x>0", [("i", 1, T47), ("i", 1, T47)], ("range", 0, M - 1)),
                ("y>0,x<0", [("i", 1, T47), ("i", -T47, -1)], ("range", 0, M - 1)),
                ("y<0,x>0", [("i", -T47, -1), ("i", 1, T47)], ("range", -(M - 1), 0)),
                ("y<0,x<0", [("i", -T47, -1), ("i", -T47, -1)], ("range", -(M - 1), 0)),
            ]

            def bad(a, o):
                yy, xx = a
                if o[0] != "ret":
                    return True
                r = o[1]
                if xx == 0:
                    return r != (pd2 if yy > 0 else (-pd2 if yy < 0 else M))
                if yy == 0:
                    return r != (0 if xx > 0 else phi)
                if abs(r) == M:
                    return True
                return (yy > 0 and r < 0) or (yy < 0 and r > 0)
            # the quotient y/x is partitioned into sign/bit-length classes so that (q-c)/(1+q*c) is evaluated precisely
            ctxp = lib.Ctx(cfg, EXTRA, only={"w_atan2"}, partition_ops=("sdiv",))
            for nm, bx, exp in boxes:
                r = ctxp.run("w_atan2", bx)
                lib.check_regions(V, r, [(nm, [], exp)], bad, "atan2 axis values and quadrant signs", site="atan2")
                for a in r.alarms:
                    if a.status == "violation":
                        V.oblige(False)
                        V.violation(a.kind, a.site, "%s in w_atan2(%s) at %s" % (a.kind, a.witness, a.where), lib.rp(r, a.witness, a.kind))
        except Broken as e:
            V.broke("%s: %s" % (cfg, e))
    expl = ("DECIDED: atan(-x) == -atan(x) for |x| < 2^31 by summary equivalence; atan2(y,x) on |x|,|y| < 2^31: x == 0 gives exactly "
            "+-fixpidiv2 by the sign of y, (0,0) gives NaN, y == 0 gives 0 for x > 0 and phi for x < 0 (the zero propagates through 0/x, the "
            "series and the final product), and in every open quadrant the result interval has the sign of y (never negative for y > 0, never "
            "positive for y < 0) and excludes NaN. NOT DECIDED: the 5e-5 / 8e-5 accuracy bounds, |atan| <= pi/2 and x <= y => atan x <= atan y + 2 ulp "
            "(numeric; DESIGN section 6).")
    return V.finish("other", expl, "./fx check C11 --tier %s" % tier, extra={"configs": configs})
