#!/usr/bin/env python3
"""Engine self-check (not a property check): direction tags (Analyzer.tag_mono) against concrete evaluation.
For every wrapper and every path whose returned value carries a tag, arguments are sampled in the path's parameter box with the
other parameters fixed; among the samples that only this path's box contains (so that the path is the one taken), the concrete
results must move in the tagged direction as parameter 0 grows.  A miss is an unsoundness of the tagging rules."""
import os
import sys
import random
import multiprocessing as mp
sys.path.insert(0, os.path.dirname(os.path.dirname(os.path.abspath(__file__))))
sys.setrecursionlimit(20000)
from fxai import runner, pipeline as P
from fxai.interp import Broken
from fxai.state import IntV, Infeasible
from fxai.conc import Conc

_G = {}


def work(name):
    b = _G["b"]
    rnd = random.Random(hash(name) & 0xffff)
    ent = b.entries[name]
    try:
        res, alarms, stats, an = runner.analyze_entry(b, name, rnd=rnd, refine_depth=0, want_paths=True,
                                                      opts={"track_mono": True, "summaries": bool(os.environ.get("SOUND_SUMMARIES"))})
    except (Broken, Infeasible) as e:
        return name, 0, 0, ["broken: %s" % e]
    if not an.fn.params or an.fn.params[0][1].kind != "int":
        return name, 0, 0, []
    cx = Conc(an)
    misses = []
    tagged = 0
    n = 0
    for p in res.paths[:60]:
        if p.mono not in (1, -1, 0) or not isinstance(p.ret, IntV):
            continue
        tagged += 1
        st = p.state
        lo, hi = st.bounds["p0"]
        if lo == hi:
            continue
        # other parameters: a fixed sample from their boxes
        for rep in range(3):
            others = []
            okb = True
            for k, (pn, ty) in enumerate(an.fn.params[1:], 1):
                if ty.kind == "int":
                    a, z = st.bounds["p%d" % k]
                    others.append(rnd.choice([a, z, rnd.randint(a, z)]))
                else:
                    a, z, nan = st.fb["f%d" % k]
                    if a > z:
                        okb = False
                        break
                    others.append(rnd.uniform(max(a, -1e30), min(z, 1e30)))
            if not okb:
                break
            xs = sorted(set([lo, hi] + [rnd.randint(lo, hi) for _ in range(40)] + [lo + j for j in range(0, min(hi - lo, 12))]))
            pts = []
            for x in xs:
                args = (x,) + tuple(others)
                # unique path box?
                cnt = 0
                for q in res.paths:
                    okq = True
                    for k, (pn, ty) in enumerate(an.fn.params):
                        if ty.kind == "int":
                            a, z = q.state.bounds["p%d" % k]
                            if not (a <= args[k] <= z):
                                okq = False
                                break
                        else:
                            a, z, nan = q.state.fb["f%d" % k]
                            if not (a <= args[k] <= z):
                                okq = False
                                break
                    if okq:
                        cnt += 1
                if cnt != 1:
                    continue
                out = cx.run(args)
                n += 1
                if out[0] == "ret":
                    pts.append((x, out[1]))
            for (x0, v0), (x1, v1) in zip(pts, pts[1:]):
                bad = (p.mono == 1 and v0 > v1) or (p.mono == -1 and v0 < v1) or (p.mono == 0 and v0 != v1)
                if bad:
                    misses.append("%s others=%r: tag %+d but f(%d) = %d, f(%d) = %d" % (name, others, p.mono, x0, v0, x1, v1))
                    break
            if len(misses) > 2:
                return name, n, tagged, misses
    return name, n, tagged, misses


def main():
    cfg = sys.argv[1] if len(sys.argv) > 1 else "K17"
    b = runner.build(cfg)
    _G["b"] = b
    names = sorted(n for n in b.entries if n.startswith("w_"))
    if len(sys.argv) > 2:
        names = [n for n in names if any(n.startswith(x) for x in sys.argv[2:])]
    tot = bad = tg = 0
    with mp.get_context("fork").Pool(12) as pool:
        for name, n, tagged, misses in pool.imap_unordered(work, names, chunksize=2):
            tot += n
            tg += tagged
            for m in misses:
                bad += 1
                print("UNSOUND? " + m[:300])
    print("monocheck %s: %d wrappers, %d tagged paths, %d concrete evaluations, %d contradictions" % (cfg, len(names), tg, tot, bad))
    return 1 if bad else 0


if __name__ == "__main__":
    sys.exit(main())
