"""Build the analysed IR from FX_REPO for one configuration, and run wrappers."""
import os
import re
import subprocess
import tempfile
import shutil
import hashlib
from . import ir as IR
from .lin import Lin, T
from .state import State, IntV, FpV, INF
from .interp import Analyzer, Broken, sgn_rng

REPO = os.environ.get("FX_REPO", "/repo")

CONFIGS = {
    "K17": ["-std=c++17"],
    "K17A": ["-std=c++17", "-DFIXEDMATH_ENABLE_SQRT_ABACUS_ALGO"],
    "K20": ["-std=c++20"],
    "K23": ["-std=c++2b"],
    # K20 with std::is_constant_evaluated() forced to true: the arms a constant evaluation takes, compiled as ordinary code
    # (libstdc++ implements std::is_constant_evaluated() as `return __builtin_is_constant_evaluated();`)
    "K20C": ["-std=c++20", "-D__builtin_is_constant_evaluated()=true"],
}

SAN = "-fsanitize=signed-integer-overflow,shift,integer-divide-by-zero,float-cast-overflow"

COMMON = ["-O1", "-Xclang", "-disable-llvm-passes", "-fno-exceptions", "-gline-tables-only", "-fdebug-info-for-profiling", SAN,
          "-fsanitize-trap=all", "-Wno-deprecated-declarations", "-Wno-everything", "-S", "-emit-llvm"]


class BuildError(Exception):
    pass


def run(cmd, **kw):
    p = subprocess.run(cmd, stdout=subprocess.PIPE, stderr=subprocess.PIPE, text=True, **kw)
    if p.returncode != 0:
        raise BuildError("command failed: %s\n%s" % (" ".join(cmd), p.stderr[-4000:]))
    return p.stdout


def build_ir(driver_src, config, repo=None, with_lib=True, extra_flags=(), keep=None):
    """compile driver (+ fixed_math.cc), link, inline; returns IR text"""
    repo = repo or REPO
    tmp = tempfile.mkdtemp(prefix="fxai-")
    try:
        d = os.path.join(tmp, "driver.cc")
        with open(d, "w") as f:
            f.write(driver_src)
        inc = ["-I" + os.path.join(repo, "fixed_lib/include"), "-ffile-prefix-map=%s=" % (repo.rstrip("/") + "/")]
        flags = CONFIGS[config] + list(extra_flags)
        run(["clang++"] + flags + inc + COMMON + [d, "-o", os.path.join(tmp, "d.ll")])
        files = [os.path.join(tmp, "d.ll")]
        if with_lib:
            run(["clang++"] + flags + inc + COMMON + [os.path.join(repo, "fixed_lib/src/fixed_math.cc"), "-o",
                                                        os.path.join(tmp, "fm.ll")])
            files.append(os.path.join(tmp, "fm.ll"))
        run(["llvm-link-14", "-S"] + files + ["-o", os.path.join(tmp, "l.ll")])
        run(["opt-14", "-S", "-passes=always-inline,cgscc(inline),cgscc(inline),function(sroa)", "-inline-threshold=100000000",
             "-inlinecold-threshold=100000000", "-inline-cold-callsite-threshold=100000000", "-inlinehint-threshold=100000000",
             "-locally-hot-callsite-threshold=100000000", "-hot-callsite-threshold=100000000",
             os.path.join(tmp, "l.ll"), "-o", os.path.join(tmp, "o.ll")])
        with open(os.path.join(tmp, "o.ll")) as f:
            text = f.read()
        if keep:
            shutil.copy(os.path.join(tmp, "o.ll"), keep)
        return text
    finally:
        shutil.rmtree(tmp, ignore_errors=True)


def load_module(text):
    mod = IR.parse_module(text)
    # globals written anywhere (textual scan: store ... @g / call passing @g)
    for m in re.finditer(r"^\s*store [^\n]*@\"?([-A-Za-z$._0-9]+)", text, re.M):
        mod.stores_to.add(m.group(1))
    for m in re.finditer(r"^\s*(?:%\S+ = )?call [^\n]*(?:memcpy|memset|memmove)[^\n]*@\"?([-A-Za-z$._0-9]+)", text, re.M):
        mod.stores_to.add(m.group(1))
    return mod


M = (1 << 63) - 1


def init_state(fn, boxes):
    """boxes: list per parameter: ('i', lo, hi) or ('f',) full float range or ('f', lo, hi, nan)"""
    st = State()
    st.block = fn.order[0]
    st.prev = None
    for k, ((pn, ty), box) in enumerate(zip(fn.params, boxes)):
        if ty.kind == "int":
            lo, hi = box[1], box[2]
            tlo, thi = sgn_rng(ty.bits)
            if lo < tlo or hi > thi:
                raise Broken("box outside type for parameter %d" % k)
            s = "p%d" % k
            st.bounds[s] = (lo, hi)
            st.env[pn] = IntV(ty.bits, Lin.sym(s), lo, hi)
        elif ty.kind in ("double", "float"):
            s = "f%d" % k
            if len(box) == 1:
                st.fb[s] = (-INF, INF, True)
            else:
                st.fb[s] = (box[1], box[2], box[3])
            st.env[pn] = FpV(ty.kind, -INF, INF, True, T("fparam", k), None, s)
        else:
            raise Broken("parameter type %r" % ty)
    return st


def analyze(mod, name, boxes, **kw):
    fn = mod.functions[name]
    an = Analyzer(mod, fn, **kw)
    st = init_state(an.fn, boxes)
    res = an.run(st)
    res.analyzer = an
    return res


def init_state_from(fn, template, forms):
    """initial state in which parameter k holds the form forms[k] (over symbols of `template`, whose symbol
    bounds and constraints are inherited): abstract re-execution of an entry point on an intermediate value"""
    st = State()
    st.block = fn.order[0]
    st.prev = None
    st.bounds = dict(template.bounds)
    st.cons = dict(template.cons)
    st.cmod = dict(template.cmod)
    st.prodl = dict(template.prodl)
    st.prod = dict(template.prod)
    st.fb = dict(template.fb)
    for k, (pn, ty) in enumerate(fn.params):
        lin = forms[k]
        lo, hi = st.rng_lin_int(lin)
        tlo, thi = sgn_rng(ty.bits)
        lo, hi = max(lo, tlo), min(hi, thi)
        st.env[pn] = IntV(ty.bits, lin, lo, hi)
    return st
