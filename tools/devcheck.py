#!/usr/bin/env python3
"""Self-check (not a property check) of checks/fxdev.py: on sampled argument pairs of hypot's paths the concrete result minus
the exact-real value must lie inside the deviation interval computed for the box."""
import os
import sys
import math
import random
from fractions import Fraction
sys.path.insert(0, os.path.dirname(os.path.dirname(os.path.abspath(__file__))))
sys.setrecursionlimit(20000)
from checks import lib, c14, fxdev
from checks.fxnum import Unsupported


def main():
    cfg = sys.argv[1] if len(sys.argv) > 1 else "K17A"
    ctx = lib.Ctx(cfg, c14.EXTRA, only={"w_hypot"}, summaries=(cfg == "K17A"))
    T47 = (1 << 47) - 1
    r = ctx.run("w_hypot", [("i", 0, T47), ("i", 0, T47)])
    rnd = random.Random(7)
    n = bad = 0
    for p in r.paths:
        box = [p.state.bounds["p0"], p.state.bounds["p1"]]
        for ca in c14._cuts(*box[0])[::3]:
            for cb in c14._cuts(*box[1])[::3]:
                try:
                    ex, dv = fxdev.path_dev(p.ret, 2, [ca, cb])
                except Unsupported:
                    continue
                if not isinstance(ex, fxdev.SqrtOf):
                    continue
                for _ in range(3):
                    a, b = rnd.randint(*ca), rnd.randint(*cb)
                    # only arguments for which this path is the one taken: its returned form must evaluate to the concrete result
                    o = r.conc((a, b))
                    if o[0] != "ret":
                        continue
                    keys = set(q.ret.lin.key() for q in r.paths if q.state.bounds["p0"][0] <= a <= q.state.bounds["p0"][1] and q.state.bounds["p1"][0] <= b <= q.state.bounds["p1"][1])
                    if len(keys) != 1:
                        continue        # several shapes cover the pair: which one is taken is not known here
                    n += 1
                    t2 = ex.p.rng([(a, a), (b, b)])[0] * ex.c * ex.c
                    # exact-real value s = sqrt(t2): o - s in [dlo, dhi]  <=>  o - dhi <= s <= o - dlo
                    lo_, hi_ = Fraction(o[1]) - dv[1], Fraction(o[1]) - dv[0]
                    ok = (lo_ <= 0 or lo_ * lo_ <= t2) and hi_ >= 0 and hi_ * hi_ >= t2
                    if not ok:
                        bad += 1
                        if bad < 5:
                            print("MISS hypot(%d,%d) = %d, exact^2 = %s, deviation interval [%s,%s]" % (a, b, o[1], t2, float(dv[0]), float(dv[1])))
    print("devcheck %s: %d sampled argument pairs, %d outside the deviation interval" % (cfg, n, bad))
    return 1 if bad else 0


if __name__ == "__main__":
    sys.exit(main())
