"""C16: mixed-type operators equal the promoted computation (translation validation by summary equivalence)."""
import os
import subprocess
import tempfile
import shutil
from . import common, lib, astlint
from .lib import M, FIN, E, sym
from . import c02, c03
from fxai.interp import Broken
from fxai import pipeline as P
from spec import entry as ENT

A = "as_fixed(a)"
OPS = (("add", "+"), ("sub", "-"), ("mul", "*"), ("div", "/"))
MAXI = (1 << 31) - 1


def extras():
    ex = []
    for nm, op in OPS:
        for t in ENT.INTS + ["f32"]:
            ct = ENT.CTYPE[t]
            ex.append(E("w_%sp_f_%s" % (nm, t), ["fx", t], "fx", "return (%s %s fixed_t(b)).v;" % (A, op)))
            ex.append(E("w_%sp_%s_f" % (nm, t), [t, "fx"], "fx", "return (fixed_t(a) %s as_fixed(b)).v;" % op))
        # double reference: IEEE operation on double(a) in the written order, conversion written out in the driver
        ex.append(E("w_%sd_f" % nm, ["fx", "f64"], "f64", "return (static_cast<double>(a) / 65536.0) %s b;" % op))
        ex.append(E("w_%sd_r" % nm, ["f64", "fx"], "f64", "return a %s (static_cast<double>(b) / 65536.0);" % op))
    return ex


def convbox(t):
    """box of the carrier on which conversion to fixed_t is not NaN"""
    if t == "f32":
        return ("f", -2147483520.0, 2147483520.0, False)
    N = ENT.BITS[t]
    if t[0] == "i":
        return ("i", max(-MAXI, ENT.tmin(t)), min(MAXI, ENT.tmax(t)))
    if N <= 16:
        return ENT.domain(t)          # whole type converts
    return ("i", 0, MAXI)             # unsigned 32/64: non-negative bit patterns up to 2^31-1


def type_witnesses(V, cfg, repo):
    lines = ["#include <fixedmath/fixed_math.hpp>", "#include <type_traits>", "using namespace fixedmath;",
             "template<typename T> T val();"]
    n = 0
    for t in ENT.CARRIERS:
        ct = ENT.CTYPE[t]
        R = "double" if t == "f64" else "fixed_t"
        for nm, op in OPS:
            lines.append("static_assert(std::is_same_v<decltype(val<fixed_t>() %s val<%s>()), %s>, \"fixed %s %s\");" % (op, ct, R, op, t))
            lines.append("static_assert(std::is_same_v<decltype(val<%s>() %s val<fixed_t>()), %s>, \"%s %s fixed\");" % (ct, op, R, t, op))
            n += 2
            if t != "f64":
                lines.append("static_assert(std::is_same_v<decltype(std::declval<fixed_t&>() %s= val<%s>()), fixed_t&>, \"fixed %s= %s\");" % (op, ct, op, t))
                n += 1
    lines.append("static_assert(std::is_same_v<decltype(val<fixed_t>() + val<fixed_t>()), fixed_t>, \"ff\");")
    tmp = tempfile.mkdtemp(prefix="fxtw-")
    try:
        f = os.path.join(tmp, "tw.cc")
        open(f, "w").write("\n".join(lines) + "\n")
        for cc in ("clang++", "g++"):
            p = subprocess.run([cc] + P.CONFIGS[cfg] + ["-I" + os.path.join(repo, "fixed_lib/include"), "-fsyntax-only", "-w", f],
                               stdout=subprocess.PIPE, stderr=subprocess.PIPE, text=True)
            ok = p.returncode == 0
            V.oblige(ok, n)
            if not ok:
                import re
                msgs = re.findall(r"error: (?:static assertion failed[^\n]*|[^\n]*)", p.stderr)[:6]
                V.violation("result type of a mixed operator", "operator result types",
                            "%s %s: type witnesses fail: %s" % (cc, cfg, "; ".join(msgs)))
    finally:
        shutil.rmtree(tmp, ignore_errors=True)
    return n


def run(tier, seed):
    V = common.Verdict("C16", tier, seed)
    configs = ["K17", "K20"] if tier == "quick" else ["K17", "K20"]
    npairs = 0
    astlint.false_attr(V, "K17", only={"operator+=", "operator-=", "operator*=", "operator/="})
    for cfg in configs:
        try:
            ctx = lib.Ctx(cfg, extras())
        except Broken as e:
            V.broke(str(e))
            continue
        type_witnesses(V, cfg, P.REPO)
        for nm, op in OPS:
            for t in ENT.INTS + ["f32"]:
                try:
                    cb = convbox(t)
                    exact_scalar = t in ENT.INTS and nm in ("mul", "div")
                    # fixed op T
                    r1 = ctx.run("w_%s_f_%s" % (nm, t), [FIN, cb if not exact_scalar else ENT.domain(t)])
                    if exact_scalar:
                        # the stated exception: the integer is used exactly, also beyond 2^31 (C02/C03 predicates)
                        if nm == "mul":
                            lib.check_post(V, r1, c02.accept_scalar(t, False), c02.bad_scalar(t, False), "fixed*%s uses the integer exactly" % t,
                                           site="fixed_multiply_scalar")
                        else:
                            lib.check_post(V, r1, c03.accept_scalar(r1, t), c03.bad_scalar(t), "fixed/%s uses the integer exactly" % t,
                                           site="fixed_division_by_scalar")
                    else:
                        r2 = ctx.run("w_%sp_f_%s" % (nm, t), [FIN, cb])
                        npairs += lib.check_equiv(V, r1, r2, "a %s t == a %s fixed_t(t)  [t: %s]" % (op, op, t), site="operator" + op)
                    # T op fixed
                    if exact_scalar and nm == "mul":
                        r1 = ctx.run("w_mul_%s_f" % t, [ENT.domain(t), FIN])
                        lib.check_post(V, r1, c02.accept_scalar(t, True), c02.bad_scalar(t, True), "%s*fixed uses the integer exactly" % t,
                                       site="fixed_multiply_scalar")
                    else:
                        r1 = ctx.run("w_%s_%s_f" % (nm, t), [cb, FIN])
                        r2 = ctx.run("w_%sp_%s_f" % (nm, t), [cb, FIN])
                        npairs += lib.check_equiv(V, r1, r2, "t %s a == fixed_t(t) %s a  [t: %s]" % (op, op, t), site="operator" + op)
                    # compound
                    r3 = ctx.run("w_%seq_f_%s" % (nm, t), [FIN, cb if not exact_scalar else ENT.domain(t)])
                    r4 = ctx.run("w_%s_f_%s" % (nm, t), [FIN, cb if not exact_scalar else ENT.domain(t)])
                    npairs += lib.check_equiv(V, r3, r4, "a %s= t leaves a == a %s t  [t: %s]" % (op, op, t), site="operator%s=" % op)
                except Broken as e:
                    V.broke("%s/%s/%s: %s" % (cfg, nm, t, e))
            # double
            try:
                r1 = ctx.run("w_%s_f_f64" % nm)
                r2 = ctx.run("w_%sd_f" % nm)
                npairs += lib.check_equiv(V, r1, r2, "a %s d == double(a) %s d" % (op, op), site="operator" + op)
                r1 = ctx.run("w_%s_f64_f" % nm)
                r2 = ctx.run("w_%sd_r" % nm)
                npairs += lib.check_equiv(V, r1, r2, "d %s a == d %s double(a) (written operand order)" % (op, op), site="operator" + op)
            except Broken as e:
                V.broke("%s/%s/double: %s" % (cfg, nm, e))
    # the long long / unsigned long long spellings of the 64-bit operand are distinct types on LP64: same programs as int64_t / uint64_t
    from . import spell
    for cfg_ in (configs[:1] if tier == "quick" else configs):
        try:
            spell.check(V, cfg_, "mixed", "mixed operators")
        except Broken as e:
            V.broke("spellings %s: %s" % (cfg_, e))
    expl = ("For each of the 9 non-double carriers x 4 operators x 2 operand orders, the inlined mixed-type operator and the inlined "
            "'promote explicitly, then fixed op fixed' program are compared path pair by path pair over the box on which the conversion is not "
            "NaN: on every jointly feasible pair the returned forms are identical (value numbering makes the converted operand one shared "
            "symbol). fixed*integer and fixed/integer are instead checked against the exact-integer predicates of C02/C03 over the whole "
            "carrier type (the stated exception). With a double operand the returned value number equals fop(sitofp(raw)/65536.0, d) with "
            "the operands in the written order for - and / (commutative terms are order-normalised for + and *, IEEE addition and "
            "multiplication commute bit for bit on non-NaN operands). a op= t is compared with a op t for all 36 compound forms; result types "
            "are decided by static_assert witnesses compiled with clang++ and g++.")
    V.cover["programs"] = V.cover.get("programs", 0)
    expl = expl + ' The `long long` / `unsigned long long` spellings of a 64-bit integral operand (distinct types on LP64) are compared with the int64_t / uint64_t wrappers by summary equivalence; spellings the library does not compile for are listed in the evidence as not defined.'
    return V.finish("translation_validation", expl, "./fx check C16 --tier %s" % tier, extra={"configs": configs, "wrapper_pairs_compared": npairs},
                    assumptions=["NaN payload propagation order of IEEE + and * is not modelled"])
