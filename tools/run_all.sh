#!/bin/bash
# run every claimed check (quick tier by default) and summarise; exit non-zero if any check is not clean
cd /verif
TIER=${1:-quick}
rc=0
for c in $(python3 -c "import json;print(' '.join(x['property_id'] for x in json.load(open('MANIFEST.json'))['checks']))"); do
  out=$(./fx check $c --tier $TIER 2>&1); e=$?
  echo "$out" | tail -1 | sed "s/^/[exit $e] /"
  [ $e -ne 0 ] && { rc=1; echo "$out" | grep -E "VIOLATION|INCONCLUSIVE|BROKEN" | head -5 | cut -c1-300; }
done
exit $rc
