#!/bin/bash
# quick subset of the repo's compile-time tests: qtest.sh name1 name2 ...   (same commands as unit_tests/CMakeLists.txt)
set -e
REPO=${FX_REPO:-/repo}
T=$(mktemp -d)
trap "rm -rf $T" EXIT
rc=0
for n in "$@"; do
  printf '#include <fixedmath/unittests/%s.h>\nint main( int argc, char ** argv ) {return fixedmath::%s_unit_tests() ? EXIT_SUCCESS : EXIT_FAILURE; }\n' $n $n > $T/t_$n.cc
  ( c++ -std=c++17 -DFIXEDMATH_ENABLE_SQRT_ABACUS_ALGO -I$REPO/fixed_lib/include $T/t_$n.cc -o $T/$n.17 && echo "ok $n cxx17" || echo "FAIL $n cxx17" ) &
  ( c++ -std=c++20 -I$REPO/fixed_lib/include $T/t_$n.cc -o $T/$n.20 && echo "ok $n cxx20" || echo "FAIL $n cxx20" ) &
  ( c++ -std=c++2b -I$REPO/fixed_lib/include $T/t_$n.cc -o $T/$n.2b && echo "ok $n cxx23" || echo "FAIL $n cxx23" ) &
done
wait
