"""C05: floating <-> fixed conversion: NaN/range clause, exactness of fixed->double, shape of fixed->float, identity of
fixed->double->fixed (decided). The half-ulp / ties-away rounding of arbitrary floating inputs is not decided."""
import math
from . import common, lib
from .lib import M, FIN, E, sym, fbox
from fxai.interp import Broken
from fxai.state import IntV, FpV, Infeasible
from fxai.lin import term_args, Lin

from fractions import Fraction
import struct


def rn_float(fr):
    """the binary32 value nearest to the rational fr (ties to even), as a Python float"""
    if fr == 0:
        return 0.0
    sign = -1 if fr < 0 else 1
    a = abs(fr)
    e = a.numerator.bit_length() - a.denominator.bit_length()
    if Fraction(2) ** e > a:
        e -= 1
    # a in [2^e, 2^(e+1)); 24 significant bits: quantum 2^(e-23)
    q = a / (Fraction(2) ** (e - 23))
    n = q.numerator // q.denominator
    rem = q - n
    if rem > Fraction(1, 2) or (rem == Fraction(1, 2) and n % 2 == 1):
        n += 1
    return sign * float(Fraction(n) * Fraction(2) ** (e - 23))


def tie_candidates():
    """raw values whose quotient by 65536 sits next to a binary32 rounding tie (and a few ordinary ones)"""
    for k in range(24, 63):
        for c in (1, 3, 5):
            for j in (-1, 0, 1):
                v = (1 << k) + c * (1 << (k - 24)) + j
                if v < (1 << 63) - 1:
                    yield v
                    yield -v
        for j in (-1, 0, 1):
            v = (1 << k) + (1 << (k - 24)) + (1 << (k - 53 if k > 53 else 0)) + j
            if v < (1 << 63) - 1:
                yield v
    for v in (0, 1, -1, 65536, 98304, -98304, 12345678901234567, (1 << 53) + (1 << 29) + 1):
        yield v


LIM = 2147483647.0
EXTRA = [
    E("w_rt_d", ["fx"], "fx", "return fixed_t(static_cast<double>(as_fixed(a))).v;"),
]
T53 = 1 << 53
T47 = (1 << 47) - 1


def run(tier, seed):
    V = common.Verdict("C05", tier, seed)
    configs = ["K17", "K20"] if tier == "quick" else ["K17", "K17A", "K20"]
    for cfg in configs:
        try:
            ctx = lib.Ctx(cfg, EXTRA)
            # ---- floating -> fixed: NaN exactly outside (-(2^31-1), 2^31-1), incl. inf and NaN
            for t in ("f32", "f64"):
                for w in ("w_ctor_" + t, "w_fp2f_" + t, "w_mk_" + t):
                    r = ctx.run(w)
                    for p in r.paths:
                        lo, hi, nan = p.state.fb["f0"]
                        rl, rh = lib.ret_rng(p)
                        if rl == rh == M:
                            ok = nan or lo > hi or lo >= LIM or hi <= -LIM
                            why = "returns NaN on a path that contains in-range values [%r,%r]" % (lo, hi)
                        else:
                            ok = (not nan) and lo > -LIM and hi < LIM and -M < rl and rh < M
                            why = "non-NaN result on a path with out-of-range / NaN inputs [%r,%r] nan=%s or result range [%d,%d]" % (lo, hi, nan, rl, rh)
                        V.oblige(ok)
                        if len(V.samples) < 6:
                            V.sample({"wrapper": w, "config": cfg, "input_range": [repr(lo), repr(hi), nan], "result": [rl, rh], "verdict": ok})
                        if not ok:
                            def bad(a, o):
                                v = a[0]
                                inr = (v == v) and abs(v) < LIM
                                if o[0] != "ret":
                                    return True
                                return (abs(o[1]) == M) == inr
                            import random
                            args, out = lib.search(r, p.state, bad, random.Random(seed))
                            if args is not None:
                                V.violation("NaN exactly outside the representable range", "floating_point_to_fixed",
                                            "%s(%r) [%s]: %s" % (w, args[0], cfg, lib.out_str(out)), lib.rp(r, args, "range clause"))
                            else:
                                V.inconc("%s: %s" % (w, why))
                    for a in r.alarms:
                        if a.status == "violation":
                            V.oblige(False)
                            V.violation(a.kind, a.site, "%s in %s(%s) at %s" % (a.kind, w, a.witness, a.where), lib.rp(r, a.witness, a.kind))
                        elif a.status == "inconclusive":
                            V.inconc("%s: %s at %s unresolved" % (w, a.kind, a.where))
            # ---- fixed -> double exact for |raw| <= 2^53
            x = sym(0)
            for w in ("w_f2fp_f64", "w_cast_f64", "w_f2a_f64"):
                r = ctx.run(w, [("i", -T53, T53)])
                for p in r.paths:
                    rt = p.ret
                    ok = isinstance(rt, FpV) and rt.xlin is not None and rt.xlin.key() == x.div(65536).key()
                    V.oblige(ok)
                    if not ok:
                        V.inconc("%s [%s]: result is not shown to be exactly raw/65536 (shape %s)" % (w, cfg, getattr(rt, "term", rt)))
            # ---- fixed -> float: one correctly rounded conversion followed by an exact power-of-two division
            for w in ("w_f2fp_f32", "w_cast_f32", "w_f2a_f32"):
                r = ctx.run(w, [FIN])
                for p in r.paths:
                    rt = p.ret
                    ok = False
                    if isinstance(rt, FpV):
                        ta = term_args(rt.term)
                        if ta is not None and ta[0] == "fdiv":
                            cv = term_args(ta[1])
                            cc = term_args(ta[2])
                            ok = (cv is not None and cv[0] == "sitofp" and cv[1] == "float" and cv[2] == x.key()
                                  and cc is not None and cc[0] == "cfp" and cc[-1] == repr(65536.0))
                    V.oblige(ok)
                    if not ok:
                        # a different expression: look for an input whose result is not the correctly rounded value
                        wit = None
                        for raw in tie_candidates():
                            o = r.conc((raw,))
                            if o[0] != "ret" or o[1] != rn_float(Fraction(raw, 65536)):
                                wit = (raw, o)
                                break
                        if wit:
                            V.violation("fixed -> float is the correctly rounded value", "fixed_to_floating_point",
                                        "%s(%d) [%s]: %s but the correctly rounded float of raw/65536 is %r" % (
                                            w, wit[0], cfg, lib.out_str(wit[1]), rn_float(Fraction(wit[0], 65536))),
                                        lib.rp(r, (wit[0],), "correctly rounded"))
                        else:
                            V.inconc("%s [%s]: result is not sitofp_float(raw) / 65536.0f: correct rounding not decided for this shape" % (w, cfg))
            # ---- fixed -> double -> fixed is the identity on |x| < 2^31
            # (on 2^31-1 <= |x| < 2^31 the conversion back is NaN by the range clause of this same property; the identity is
            #  decided on the range the two clauses agree on)
            RT = (1 << 47) - 65536 - 1
            r = ctx.run("w_rt_d", [("i", -RT, RT)])
            lib.check_regions(V, r, [("|x|<2^31-1", [], ("lin", x))], lambda a, o: o != ("ret", a[0]), "fixed -> double -> fixed is the identity",
                              site="floating_point_to_fixed")
        except Broken as e:
            V.broke("%s: %s" % (cfg, e))
    expl = ("DECIDED: float and double -> fixed: every path that converts has its input range inside (-(2^31-1), 2^31-1) with NaN excluded and a "
            "non-NaN result; every other path (too large, +-inf, NaN: the false edges of the ordered comparisons) returns the NaN constant; no "
            "float-cast trap is reachable. fixed -> double: the returned value equals raw/65536 exactly on |raw| <= 2^53 (sitofp exact, division "
            "by 2^16 exact). fixed -> float: the value number is sitofp_float(raw)/65536.0f, one correctly rounded conversion followed by an "
            "exact scaling. fixed -> double -> fixed returns the form x on |x| < 2^31 (exact scaling, +-0.5 exact below 2^52, truncation toward "
            "zero); for 2^31-1 <= |x| < 2^31 the range clause of the same property makes the conversion back NaN, so the identity is decided "
            "on |x| < 2^31-1, where the two clauses agree. NOT DECIDED: the half-ulp / ties-away rounding clause for arbitrary double inputs and any rounding clause for float "
            "(needs a floating-point round-off domain; DESIGN section 6).")
    return V.finish("other", expl, "./fx check C05 --tier %s" % tier, extra={"configs": configs})
