"""Other spellings of the integral types.

The wrapper table instantiates every template that takes an integral type with the eight fixed-width types. On x86-64 / LP64
`long long`, `unsigned long long`, `char`, `wchar_t`, `char16_t` and `char32_t` are *distinct* integral types with the width and
signedness of int64_t, uint64_t, int8_t, int32_t, uint16_t, uint32_t, so code that keys on a type name instead of its properties can
treat them differently.  For each family the wrapper spelled with such a type must be the same program as its fixed-width twin (summary equivalence on the full parameter boxes); a spelling the library
does not compile for is recorded as "not defined" (the properties quantify over the inputs a function is defined on)."""
from . import lib
from .lib import E

# (suffix, spelling, fixed-width twin on x86-64 / LP64)
SPELL = (("ll", "long long", "i64"), ("ull", "unsigned long long", "u64"),
         ("c", "char", "i8"), ("wc", "wchar_t", "i32"), ("c16", "char16_t", "u16"), ("c32", "char32_t", "u32"))
TWIN = {"i64": "int64_t", "u64": "uint64_t", "i8": "int8_t", "i32": "int32_t", "u16": "uint16_t", "u32": "uint32_t"}
A, B = "as_fixed(a)", "as_fixed(b)"

# family -> list of (stem, params with C for the integral carrier, ret ('fx' or C), body with {T}, base wrapper name with {t})
FAMILIES = {
    "mul": [("mul_f", ["fx", "C"], "fx", "return (%s * static_cast<{T}>(b)).v;" % A, "w_mul_f_{t}"),
            ("mul_X_f", ["C", "fx"], "fx", "return (static_cast<{T}>(a) * %s).v;" % B, "w_mul_{t}_f"),
            ("muleq_f", ["fx", "C"], "fx", "fixed_t x{%s}; x *= static_cast<{T}>(b); return x.v;" % A, "w_muleq_f_{t}")],
    "div": [("div_f", ["fx", "C"], "fx", "return (%s / static_cast<{T}>(b)).v;" % A, "w_div_f_{t}"),
            ("diveq_f", ["fx", "C"], "fx", "fixed_t x{%s}; x /= static_cast<{T}>(b); return x.v;" % A, "w_diveq_f_{t}")],
    "conv": [("ctor", ["C"], "fx", "return fixed_t(static_cast<{T}>(a)).v;", "w_ctor_{t}"),
             ("i2f", ["C"], "fx", "return integral_to_fixed(static_cast<{T}>(a)).v;", "w_i2f_{t}"),
             ("mk", ["C"], "fx", "return make_fixed(static_cast<{T}>(a)).v;", "w_mk_{t}"),
             ("f2i", ["fx"], "C", "return fixed_to_integral<{T}>(%s);" % A, "w_f2i_{t}"),
             ("f2a", ["fx"], "C", "return fixed_to_arithmetic<{T}>(%s);" % A, "w_f2a_{t}"),
             ("cast", ["fx"], "C", "return static_cast<{T}>(%s);" % A, "w_cast_{t}")],
    "mixed": [("add_f", ["fx", "C"], "fx", "return (%s + static_cast<{T}>(b)).v;" % A, "w_add_f_{t}"),
              ("add_X_f", ["C", "fx"], "fx", "return (static_cast<{T}>(a) + %s).v;" % B, "w_add_{t}_f"),
              ("sub_f", ["fx", "C"], "fx", "return (%s - static_cast<{T}>(b)).v;" % A, "w_sub_f_{t}"),
              ("sub_X_f", ["C", "fx"], "fx", "return (static_cast<{T}>(a) - %s).v;" % B, "w_sub_{t}_f"),
              ("div_X_f", ["C", "fx"], "fx", "return (static_cast<{T}>(a) / %s).v;" % B, "w_div_{t}_f"),
              ("addeq_f", ["fx", "C"], "fx", "fixed_t x{%s}; x += static_cast<{T}>(b); return x.v;" % A, "w_addeq_f_{t}"),
              ("subeq_f", ["fx", "C"], "fx", "fixed_t x{%s}; x -= static_cast<{T}>(b); return x.v;" % A, "w_subeq_f_{t}")],
    "angle": [("a2r", ["C"], "fx", "return angle_to_radians(static_cast<{T}>(a)).v;", "w_a2r_{t}"),
              ("sin_angle", ["C"], "fx", "return sin_angle(static_cast<{T}>(a)).v;", "w_sin_angle_{t}"),
              ("cos_angle", ["C"], "fx", "return cos_angle(static_cast<{T}>(a)).v;", "w_cos_angle_{t}"),
              ("tan_angle", ["C"], "fx", "return tan_angle(static_cast<{T}>(a)).v;", "w_tan_angle_{t}")],
}


def check(V, cfg, family, site, boxes=None):
    """every compiled long-long spelling of the family equals its fixed-width twin; returns the evidence dict"""
    extra = []
    pairs = []
    for stem, params, ret, body, base in FAMILIES[family]:
        for sfx, T, t in SPELL:
            name = "w_%s_%s" % (stem, sfx)
            ps = [t if k == "C" else k for k in params]
            rt = t if ret == "C" else ret
            extra.append(E(name, ps, rt, body.replace("{T}", T)))
            pairs.append((name, base.replace("{t}", t), T))
    names = {e.name for e in extra}
    ctx = lib.Ctx(cfg, extra, only=names | {b for _, b, _ in pairs}, optional=names)
    done = 0
    undefined = []
    for name, base, T in pairs:
        if name not in ctx.built.entries:
            undefined.append("%s (%s)" % (name[2:], ctx.built.skipped.get(name, "?")[:80]))
            continue
        if base not in ctx.built.entries:
            V.broke("spelling check [%s]: base wrapper %s is not in the build" % (cfg, base))
            continue
        bx = boxes.get(name) if boxes else None
        ra = ctx.run(name, bx)
        rb = ctx.run(base, bx)
        lib.check_equiv(V, ra, rb, "%s with the operand spelled %s == the same with its fixed-width twin" % (base[2:], T), site=site)
        done += 1
    info = {"compared": done, "not_defined_for_this_spelling": undefined}
    V.cover.setdefault("spellings", {}).setdefault(cfg, {})[family] = info
    if done == 0:
        V.broke("spelling check [%s/%s]: no long-long spelling compiled" % (cfg, family))
    return info
