"""C10: tan is odd, periodic (x >= 0) and NaN exactly at the pole (decided); the accuracy bound is not decided."""
from . import common, lib, reduce
from .lib import M, E, sym, FIN, ANYFX
from .c09 import const_of
from fxai.interp import Broken
from fxai.state import IntV

T62 = (1 << 62) - 1
EXTRA = [
    E("w_phi", [], "fx", "return phi.v;"),
    E("w_pidiv2", [], "fx", "return fixpidiv2.v;"),
    E("w_negtanneg", ["fx"], "fx", "return (-tan(-as_fixed(a))).v;"),
]


def run(tier, seed):
    V = common.Verdict("C10", tier, seed)
    configs = ["K17", "K20"] if tier == "quick" else ["K17", "K20"]
    info = {}
    for cfg in configs:
        try:
            ctx = lib.Ctx(cfg, EXTRA)
            phi = const_of(ctx, "w_phi")
            pole = const_of(ctx, "w_pidiv2")
            # oddness for every finite x
            rt = ctx.run("w_tan", [FIN])
            lib.check_equiv(V, rt, ctx.run("w_negtanneg", [FIN]), "tan(-x) == -tan(x)", site="tan")
            # period phi for x >= 0 (arguments below 2^62 raw)
            rp = ctx.run("w_tan", [("i", 0, T62)])
            w = reduce.check_reduction(V, rp, phi, "0 <= x < 2^62", "tan(x + k*phi) == tan(x) for x, k >= 0", "tan")
            info[cfg] = {"phi": phi, "pole": pole, "window": list(w), "paths": len(rp.paths)}
            # pole: NaN exactly when |x| mod phi == fixpidiv2
            x = sym(0)
            npole = 0
            for p in rp.paths:
                st = p.state
                lo, hi = lib.ret_rng(p)
                cands = [v for v in reduce.candidates(p, x, phi)]
                cands.reverse()
                r = None
                for v in cands:
                    a, z = st.rng(v)
                    if 0 <= a and z < phi:
                        r = (a, z)
                        break
                if lo == hi == M:
                    npole += 1
                    ok = r is not None and r[0] == r[1] == pole
                    why = "returns NaN but the reduced argument ranges over %s (pole %d)" % (r, pole)
                else:
                    ok = r is not None and (r[1] < pole or r[0] > pole) and hi < M and lo > -M
                    why = "non-NaN path: reduced argument range %s must exclude the pole %d and the result range [%d,%d] must exclude +-NaN" % (r, pole, lo, hi)
                V.oblige(ok)
                if not ok:
                    def bad(a, o):
                        isn = o[0] == "ret" and abs(o[1]) == M
                        return o[0] != "ret" or isn != (a[0] % phi == pole)
                    import random
                    args, out = lib.search(rp, st, bad, random.Random(seed))
                    if args is not None:
                        V.violation("tan is NaN exactly at the pole", "tan", "tan(%d) [%s]: %s; x mod phi = %d, pole = %d" % (
                            args[0], cfg, lib.out_str(out), args[0] % phi, pole), lib.rp(rp, args, "NaN exactly at the pole"))
                    else:
                        V.inconc("w_tan: %s on path %s" % (why, lib.describe_path(p)))
            if npole == 0:
                V.violation("tan is NaN exactly at the pole", "tan", "no path of tan returns NaN: the pole is not reported [%s]" % cfg,
                            lib.rp(rp, (pole,), "tan(fixpidiv2) is NaN"))
            for r_ in (rt, rp):
                for a in r_.alarms:
                    if a.status == "violation":
                        V.oblige(False)
                        V.violation(a.kind, a.site, "%s in w_tan(%s) at %s" % (a.kind, a.witness, a.where), lib.rp(r_, a.witness, a.kind))
                    elif a.status == "inconclusive":
                        V.inconc("w_tan: %s at %s unresolved" % (a.kind, a.where))
        except Broken as e:
            V.broke("%s: %s" % (cfg, e))
    expl = ("DECIDED: oddness - tan(x) and -tan(-x) are compared by summary equivalence over all finite x; period - for 0 <= x < 2^62 every "
            "path exhibits an intermediate r with r congruent to x modulo phi.v, all r inside one window of at most phi.v integers, and the "
            "returned form equal to abstract re-execution of tan on r; pole - a path returns the NaN constant exactly when its reduced "
            "argument is the singleton fixpidiv2.v, on all other paths the reduced argument range excludes the pole and the result interval "
            "excludes +-NaN (so the reciprocal branch divides by a non-zero value: no division trap). NOT DECIDED: |tan(x) - tan x| <= "
            "2.5 ulp (1 + tan^2 x).")
    return V.finish("other", expl, "./fx check C10 --tier %s" % tier, extra={"configs": configs, "reduction": info})
