"""Abstract values and path state for fxai."""
from fractions import Fraction
import math
from .lin import Lin, T
from . import fm
import re as _re
_PARAM = _re.compile(r"p\d+$")

INF = float("inf")


def fl(x):
    return x.numerator // x.denominator if isinstance(x, Fraction) else x


def cl(x):
    return -((-x.numerator) // x.denominator) if isinstance(x, Fraction) else x


class Infeasible(Exception):
    pass


class Split(Exception):
    """raised by a transfer function: fork the state into the given cases and retry.
    each case is a list of refinements:
      ('lin', Lin, lo|None, hi|None)   ('pred', pred, truth)   ('f', fsym, lo, hi, nan)
    """

    def __init__(self, cases, why=""):
        self.cases = cases
        self.why = why


class IntV:
    __slots__ = ("w", "lin", "lo", "hi", "tz", "pred", "pbase", "mlin")

    def __init__(self, w, lin, lo, hi, tz=0, pred=None, pbase=None, mlin=None):
        self.mlin = mlin      # value is congruent to this (unbounded) form modulo 2^w
        self.w = w
        self.lin = lin
        self.lo = lo
        self.hi = hi
        self.tz = tz
        self.pred = pred
        self.pbase = pbase

    def __repr__(self):
        return "i%d[%s..%s]{%r}" % (self.w, self.lo, self.hi, self.lin)


class BoolV:
    __slots__ = ("tv", "pred")

    def __init__(self, tv, pred=None):
        self.tv = tv          # True / False / None
        self.pred = pred if tv is None else ("const", tv)

    def __repr__(self):
        return "bool(%s)" % (self.tv,)


class FpV:
    __slots__ = ("kind", "lo", "hi", "nan", "term", "xlin", "fsym", "slin")

    def __init__(self, kind, lo, hi, nan, term, xlin=None, fsym=None, slin=None):
        self.slin = slin      # integer-valued Lin with the same sign as the value (value never NaN)
        self.kind = kind
        self.lo = lo
        self.hi = hi
        self.nan = nan
        self.term = term
        self.xlin = xlin      # value equals this Lin exactly as a real number (and is not NaN)
        self.fsym = fsym

    def __repr__(self):
        return "%s[%r..%r%s]" % (self.kind, self.lo, self.hi, " nan" if self.nan else "")


class PtrV:
    __slots__ = ("glob", "off", "al")

    def __init__(self, glob, off, al=0):
        self.glob = glob
        self.off = off        # IntV (64 bit) byte offset
        self.al = al          # offset is a multiple of al (0 = offset is exactly 0 so far)

    def __repr__(self):
        return "&%s+%r" % (self.glob, self.off)


class AggV:
    __slots__ = ("fields",)

    def __init__(self, fields):
        self.fields = fields


def pred_key(p):
    k = p[0]
    if k == "icmp":
        return ("icmp", p[1], p[2].lin.key(), p[3].lin.key(), p[2].w)
    if k == "fcmp":
        return ("fcmp", p[1], p[2].term, p[3].term)
    if k == "not":
        return ("not", pred_key(p[1]))
    if k in ("and", "or"):
        return (k, pred_key(p[1]), pred_key(p[2]))
    if k == "const":
        return ("const", p[1])
    if k == "lin":
        return ("lin", p[1].key(), p[2], p[3])
    raise ValueError(p)


class PList:
    """persistent (shared-tail) list: O(1) push and fork"""
    __slots__ = ("head",)

    def __init__(self, head=None):
        self.head = head

    def append(self, x):
        self.head = (x, self.head)

    def extend(self, xs):
        for x in xs:
            self.head = (x, self.head)

    def copy(self):
        return PList(self.head)

    def __iter__(self):
        out = []
        n = self.head
        while n is not None:
            out.append(n[0])
            n = n[1]
        return iter(reversed(out))

    def __len__(self):
        k = 0
        n = self.head
        while n is not None:
            k += 1
            n = n[1]
        return k

    def __add__(self, other):
        r = PList(self.head)
        r.extend(other)
        return r


class State:
    def __init__(self):
        self.env = {}
        self.bounds = {}      # sym -> (lo, hi)   integer symbols
        self.cons = {}        # normalized key -> (lo, hi) on the normalized form (Fractions or None)
        self.cmod = {}        # normalized key -> m : the normalized form is a multiple of m
        self.fb = {}          # float symbol -> (lo, hi, nan)
        self.block = None
        self.prev = None
        self.pc = 0
        self.trace = PList()
        self.tag = ()
        self.iters = {}
        self.wraps = PList()  # wrap events [(kind, inst line, k)]
        self.notes = PList()
        self.prod = {}        # product symbol -> (lin key a, lin key b)
        self.prodl = {}       # product symbol -> (canonical form a, canonical form b)
        self.steps = 0
        self.isc = {}
        self.loop_entry = {}
        self.parted = frozenset()
        self.src = None
        self.mono = None      # optional: SSA name -> direction (+1, -1, 0) in which the value moves when parameter 0 grows

    def fork(self):
        s = State.__new__(State)
        s.env = dict(self.env)
        s.bounds = dict(self.bounds)
        s.cons = dict(self.cons)
        s.cmod = self.cmod if not self.cmod else dict(self.cmod)
        s.fb = dict(self.fb)
        s.block = self.block
        s.prev = self.prev
        s.pc = self.pc
        s.trace = self.trace.copy()
        s.tag = self.tag
        s.iters = dict(self.iters)
        s.wraps = self.wraps.copy()
        s.notes = self.notes.copy()
        s.prod = dict(self.prod)
        s.prodl = dict(self.prodl)
        s.steps = self.steps
        s.isc = dict(self.isc)
        s.loop_entry = self.loop_entry
        s.parted = self.parted
        s.src = self.src
        s.mono = None if self.mono is None else dict(self.mono)
        return s

    # ---------------------------------------------------------- ranges
    def rng_num(self, lin):
        """bounds of the numerator of lin (integers): lo_n <= lin * lin.d <= hi_n"""
        lo = hi = lin.cn
        b = self.bounds
        t = lin.t
        for s, k in t.items():
            a, z = b[s]
            if k > 0:
                lo += k * a
                hi += k * z
            else:
                lo += k * z
                hi += k * a
        if len(t) > 1 and self.cons:
            nk, g, d, off = lin.normalized()
            c = self.cons.get(nk)
            if c is not None:
                clo, chi = c
                m = self.cmod.get(nk)
                if m is not None:
                    # work on the normalized form: numerator = g * nform + off
                    if g > 0:
                        nlo = -((-(lo - off)) // g)
                        nhi = (hi - off) // g
                    else:
                        nlo = -((-(hi - off)) // g)
                        nhi = (lo - off) // g
                    if clo is not None and clo > nlo:
                        nlo = clo
                    if chi is not None and chi < nhi:
                        nhi = chi
                    nlo = -((-nlo) // m) * m
                    nhi = nhi // m * m
                    if g > 0:
                        return nlo * g + off, nhi * g + off
                    return nhi * g + off, nlo * g + off
                # numerator = g * nform + off
                if g > 0:
                    a = None if clo is None else clo * g + off
                    z = None if chi is None else chi * g + off
                else:
                    a = None if chi is None else chi * g + off
                    z = None if clo is None else clo * g + off
                if a is not None and a > lo:
                    lo = a
                if z is not None and z < hi:
                    hi = z
        return lo, hi

    def rng_raw(self, lin):
        """rational bounds of a linear form"""
        lo, hi = self.rng_num(lin)
        if lin.d == 1:
            return lo, hi
        return Fraction(lo, lin.d), Fraction(hi, lin.d)

    def rng(self, v):
        """integer range of an IntV (its value is an integer)"""
        lin = v.lin
        lo, hi = self.rng_num(lin)
        d = lin.d
        if d != 1:
            lo = -((-lo) // d)
            hi = hi // d
        if v.lo > lo:
            lo = v.lo
        if v.hi < hi:
            hi = v.hi
        if lo > hi:
            raise Infeasible()
        return lo, hi

    def rng_lin_int(self, lin):
        lo, hi = self.rng_num(lin)
        d = lin.d
        if d != 1:
            lo = -((-lo) // d)
            hi = hi // d
        return lo, hi

    # ---------------------------------------------------------- refinement
    def constrain(self, lin, lo, hi, mod=None):
        """require lo <= lin <= hi (None = unbounded); all symbols are integers.
        mod: the (integer valued, d == 1, unit gcd) form is additionally a multiple of mod"""
        if lin.is_const():
            c = lin.c
            if (lo is not None and c < lo) or (hi is not None and c > hi):
                raise Infeasible()
            return
        d = lin.d
        # numerator bounds:  d*lo - cn <= sum k s <= d*hi - cn
        nlo = None if lo is None else cl(d * lo - lin.cn)
        nhi = None if hi is None else fl(d * hi - lin.cn)
        t = lin.t
        if len(t) == 1:
            for s, k in t.items():
                self._tighten_sym(s, k, nlo, nhi)
            self._propagate()
            return
        nk, g, _, _ = lin.normalized()
        # sum k s = g * nform
        if g > 0:
            flo = None if nlo is None else -((-nlo) // g)
            fhi = None if nhi is None else nhi // g
        else:
            flo = None if nhi is None else -((-nhi) // g)
            fhi = None if nlo is None else nlo // g
        old = self.cons.get(nk)
        if old is not None:
            olo, ohi = old
            if olo is not None and (flo is None or olo > flo):
                flo = olo
            if ohi is not None and (fhi is None or ohi < fhi):
                fhi = ohi
        if flo is not None and fhi is not None and flo > fhi:
            raise Infeasible()
        self.cons[nk] = (flo, fhi)
        if mod is not None and abs(g) == 1 and lin.d == 1 and lin.cn == 0:
            if self.cmod is None or nk not in self.cmod:
                self.cmod = dict(self.cmod)
                self.cmod[nk] = mod
        self._propagate()
        a, z = self.rng_num(lin)
        if a > z:
            raise Infeasible()
        # relational feasibility of the constraints that only mention parameters (Fourier-Motzkin)
        if all(isinstance(y, str) and _PARAM.match(y) for y, _ in nk):
            sub = self.param_cons()
            if len(sub) >= 2 and not fm.feasible(self.bounds, sub):
                raise Infeasible()

    def retighten_products(self):
        """re-derive the bounds of product symbols from the current ranges of their factors"""
        for s_, (ca, cb) in self.prodl.items():
            if s_ not in self.bounds:
                continue
            try:
                alo, ahi = self.rng_lin_int(ca)
                blo, bhi = self.rng_lin_int(cb)
            except KeyError:
                continue
            cs = [alo * blo, alo * bhi, ahi * blo, ahi * bhi]
            lo, hi = min(cs), max(cs)
            a, z = self.bounds[s_]
            a, z = max(a, lo), min(z, hi)
            if a > z:
                raise Infeasible()
            self.bounds[s_] = (a, z)

    def param_cons(self):
        return {k: v for k, v in self.cons.items() if all(isinstance(y, str) and _PARAM.match(y) for y, _ in k)}

    def rng_tight(self, lin):
        """integer range of a form, additionally using Fourier-Motzkin over the parameter-only constraints"""
        lo, hi = self.rng_lin_int(lin)
        if lin.d == 1 and len(lin.t) >= 2 and all(isinstance(y, str) and _PARAM.match(y) for y in lin.t):
            sub = self.param_cons()
            if sub:
                r = fm.bounds_of(self.bounds, sub, lin.t)
                if r == "infeasible":
                    raise Infeasible()
                a, z = r
                if a is not None and a + lin.cn > lo:
                    lo = a + lin.cn
                if z is not None and z + lin.cn < hi:
                    hi = z + lin.cn
        return lo, hi

    def _tighten_sym(self, s, k, lo, hi):
        """lo <= k*s <= hi  (integers, k != 0)"""
        a, z = self.bounds[s]
        if k > 0:
            if lo is not None:
                a = max(a, -((-lo) // k))
            if hi is not None:
                z = min(z, hi // k)
        else:
            if lo is not None:
                z = min(z, lo // k)
            if hi is not None:
                a = max(a, -((-hi) // k))
        if a > z:
            raise Infeasible()
        self.bounds[s] = (a, z)

    def _propagate(self):
        if not self.cons:
            return
        bounds = self.bounds
        for _ in range(4):
            changed = False
            for items, (clo, chi) in self.cons.items():
                # total interval
                tlo = thi = 0
                parts = []
                for s, k in items:
                    a, z = bounds[s]
                    if k > 0:
                        plo, phi = k * a, k * z
                    else:
                        plo, phi = k * z, k * a
                    parts.append((s, k, plo, phi, a, z))
                    tlo += plo
                    thi += phi
                if (chi is not None and tlo > chi) or (clo is not None and thi < clo):
                    raise Infeasible()
                for s, k, plo, phi, a, z in parts:
                    rlo = tlo - plo
                    rhi = thi - phi
                    na, nz = a, z
                    # clo - rhi <= k*s <= chi - rlo
                    if k > 0:
                        if clo is not None:
                            v = -((-(clo - rhi)) // k)
                            if v > na:
                                na = v
                        if chi is not None:
                            v = (chi - rlo) // k
                            if v < nz:
                                nz = v
                    else:
                        if clo is not None:
                            v = (clo - rhi) // k
                            if v < nz:
                                nz = v
                        if chi is not None:
                            v = -((-(chi - rlo)) // k)
                            if v > na:
                                na = v
                    if na > nz:
                        raise Infeasible()
                    if na != a or nz != z:
                        bounds[s] = (na, nz)
                        changed = True
                        # keep totals consistent for the remaining symbols of this constraint
                        if k > 0:
                            tlo += k * (na - a)
                            thi += k * (nz - z)
                        else:
                            tlo += k * (nz - z)
                            thi += k * (na - a)
            if not changed:
                break

    # ---------------------------------------------------------- symbols
    def mint(self, term, lo, hi):
        """symbol named by its defining term; bounds are intersected when re-minted"""
        old = self.bounds.get(term)
        if old is not None:
            lo = max(lo, old[0])
            hi = min(hi, old[1])
            if lo > hi:
                raise Infeasible()
        self.bounds[term] = (lo, hi)
        return term
