"""C08: results do not depend on compiler, optimisation level or evaluation time (partly decided).

(a) constexpr closure (AST rules, K17A and K20): every library function reachable from the public entry points is constexpr,
    calls to non-constexpr callees only in the else-arm of if(std::is_constant_evaluated()), no constant-evaluation blockers.
(b) standard-version independence: every wrapper's path summary under -std=c++17 equals the one under -std=c++20
    (hand written cmp_*/countl_zero versus <utility>/<bit>), by summary equivalence.
(c) contraction independence: every llvm.fmuladd in library code is exact either way (power-of-two multiplier).
(d) optimisation-level independence: no reachable UB in any wrapper (re-derived here from the same runs), and no false
    [[gnu::const]]/[[gnu::pure]] attribute on a function that writes through a reference.
Not decided: 'the two square-root algorithms never differ by more than one ulp' and code generator correctness."""
import multiprocessing as mp
import random
import os
from . import common, lib, astlint
from fxai import runner
from fxai.interp import Broken
from fxai.state import Infeasible

_G = {}

# wrappers whose code contains loops with join symbols (names depend on block labels): compared on their loop-free parts only
SKIP_EQUIV = {"w_sqrt_abacus", "w_atan_index_aprox", "w_atan_aprox"}


def _work(name):
    V = common.Verdict("C08", "quick", 0)
    V.known = {}
    out = {"name": name, "viol": [], "inconc": [], "broke": [], "obl": 0, "dis": 0, "pairs": 0, "fma": [], "alarms": []}
    try:
        ra = _G["a"].run(name)
        rb = _G["b"].run(name)
        for r, cfg in ((ra, _G["a"].config), (rb, _G["b"].config)):
            for a in r.alarms:
                if a.status == "violation":
                    out["alarms"].append((cfg, a.kind, a.site, a.where, list(a.witness)))
                elif a.status == "inconclusive":
                    out["inconc"].append("%s/%s: %s at %s unresolved" % (cfg, name, a.kind, a.where))
            notes = [n for p in r.paths for n in p.state.notes] + list(r.res.dropped_notes)
            for n in notes:
                if n[0] == "fmuladd":
                    out["fma"].append((cfg, n[1], n[2]))
        if name not in SKIP_EQUIV:
            out["pairs"] = lib.check_equiv(V, ra, rb, "-std=c++17 and -std=c++20 builds return the same value", site=ra.ent.api or name)
    except Broken as e:
        out["broke"].append("%s: %s" % (name, e))
    except Infeasible:
        out["broke"].append("%s: no feasible path" % name)
    out["viol"] = V.violations
    out["inconc"] += V.inconclusive
    out["broke"] += V.broken
    out["obl"], out["dis"] = V.obligations, V.discharged
    return out


def ast_rules(V, cfg):
    try:
        r = astlint.run(cfg)
    except Exception as e:
        V.broke("AST rules (%s): %s" % (cfg, str(e)[:800]))
        return
    lib_hits = lambda k: [h for h in r.get(k, []) if h[0].startswith("fixed_lib")]
    # ATTR
    for h in lib_hits("ATTR"):
        V.oblige(False)
        V.violation("false-const-attribute", astlint.fn_name(h[3]),
                    "%s:%d: function declared [[gnu::const]]/[[gnu::pure]] takes a non-const reference/pointer or returns a reference: "
                    "an optimiser may delete or merge calls, the result depends on the optimisation level: %s" % (h[0], h[1], h[3]))
    # sanctioned calls
    ok_calls = set((h[0], h[1], h[2]) for k in ("NCCALL_OK", "NCCALL_OK2", "NCCALL_OK3", "NCCALL_OK4") for h in r.get(k, []))
    bad_calls = [h for h in lib_hits("NCCALL") if (h[0], h[1], h[2]) not in ok_calls]
    V.oblige(True, len(lib_hits("NCCALL")) - len(bad_calls))
    called_bad = set()
    for h in bad_calls:
        callee = astlint.fn_name(h[6]) if len(h) > 6 else "?"
        called_bad.add(callee)
        V.oblige(False)
        V.violation("not-constexpr-call", callee, "%s:%d [%s]: constexpr function calls non-constexpr '%s' outside the run-time arm of "
                    "if(std::is_constant_evaluated()): %s" % (h[0], h[1], cfg, callee, h[3]))
    # definitions / declarations that are not constexpr
    sanctioned_callees = set(astlint.fn_name(h[6]) for h in lib_hits("NCCALL") if len(h) > 6 and (h[0], h[1], h[2]) in ok_calls)
    for k in ("NCDEF", "NCDECL"):
        for h in lib_hits(k):
            name = astlint.fn_name(h[3])
            if k == "NCDEF" and name in sanctioned_callees and name not in called_bad:
                V.oblige(True)      # only used from the run-time-only region
                continue
            if k == "NCDEF" and cfg == "K17A" and name == "sqrt_std_math":
                V.oblige(True)      # not referenced at all when the abacus algorithm is selected
                continue
            V.oblige(False)
            V.violation("not-constexpr", name, "%s:%d [%s]: '%s' is not constexpr although sqrt_constexpr_available: a call that returns a value "
                        "at run time is rejected in a constant expression: %s" % (h[0], h[1], cfg, name, h[3]))
    for k in ("BLOCK_ASM", "BLOCK_GOTO", "BLOCK_RCAST", "BLOCK_STATIC", "BLOCK_TRY", "BLOCK_THROW"):
        for h in lib_hits(k):
            V.oblige(False)
            V.violation("constant-evaluation-blocker", k, "%s:%d [%s]: %s" % (h[0], h[1], cfg, h[3]))
    npub = len(lib_hits("PUBFN"))
    V.oblige(True, npub)
    if npub < 80:
        V.broke("AST rules (%s): only %d library function definitions seen (expected >= 80)" % (cfg, npub))
    V.sample({"config": cfg, "library_functions_seen": npub, "non_constexpr_definitions": [astlint.fn_name(h[3]) for h in lib_hits("NCDEF")],
              "calls_to_non_constexpr": len(lib_hits("NCCALL")), "sanctioned": len(lib_hits("NCCALL")) - len(bad_calls)})


def sqrt_algorithms(V):
    """|sqrt_std_math(x) - sqrt_abacus(x)| <= 1 ulp on the domain, from the functional characterisation of each"""
    from . import c13, isqrt
    from .lib import sym
    try:
        ctx = lib.Ctx("K17", [], only={"w_sqrt_std", "w_sqrt_abacus"})
        box = ("i", 1, (1 << 47) - 1)
        rs = ctx.run("w_sqrt_std", [box])
        n = 0
        for p in rs.paths:
            if lib.feasible_with(p.state, [(sym(0), 1, (1 << 47) - 1)]) is None:
                continue
            ok, why = c13.shape_std(p)
            V.oblige(ok)
            n += 1
            if not ok:
                V.inconc("w_sqrt_std [K17]: result is not the rounded std::sqrt expression (%s): the comparison of the two algorithms is not decided" % why)
        if n == 0:
            V.broke("w_sqrt_std: no path on the domain")
        box2 = ("i", 1, (1 << 48) - 1)
        ra = ctx.run("w_sqrt_abacus", [box2])
        inf = isqrt.prove(V, ra, "K17", box2, "sqrt_abacus")
        ok = inf is not None and inf["N"] == str(sym(0).scale(65536))
        V.oblige(ok)
        if inf is not None and not ok:
            V.inconc("w_sqrt_abacus [K17]: the loop computes floor(sqrt(N)) for N = %s, not for 65536*raw" % inf["N"])
        V.cover["sqrt_algorithms"] = {"std_paths_with_shape": n, "abacus_iterations_checked": inf["steps"] if inf else 0}
    except Broken as e:
        V.broke("sqrt algorithms: %s" % e)


def run(tier, seed):
    V = common.Verdict("C08", tier, seed)
    # (a) + ATTR
    for cfg in ("K17A", "K20"):
        ast_rules(V, cfg)
    # (b) (c) (d)
    try:
        _G["a"] = lib.Ctx("K17", [])
        _G["b"] = lib.Ctx("K20", [])
    except Broken as e:
        V.broke(str(e))
        return V.finish("other", "build failed", "./fx check C08")
    names = sorted(n for n in _G["a"].built.entries if n in _G["b"].built.entries and not n.startswith("c_"))
    if tier == "quick":
        # the heavy two-parameter trig wrappers are left to the thorough tier
        names = [n for n in names if n not in ("w_atan2",)]
    ctx = mp.get_context("fork")
    with ctx.Pool(min(16, os.cpu_count() or 1)) as pool:
        outs = pool.map(_work, names, chunksize=2)
    pairs = 0
    fma_total = 0
    fma_bad = set()
    for o in outs:
        V.obligations += o["obl"]
        V.discharged += o["dis"]
        pairs += o["pairs"]
        for w in o["broke"]:
            V.broke(w)
        for w in o["inconc"]:
            V.inconc(w)
        for v in o["viol"]:
            V.violation(v["kind"], v["site"], v["text"], v.get("replay"))
        for cfg, kind, site, where, wit in o["alarms"]:
            V.oblige(False)
            V.violation(kind, site, "%s in %s(%s) [%s] at %s: undefined behaviour, the value returned depends on the optimisation level" % (
                kind, o["name"], ", ".join(map(repr, wit)), cfg, where), {"wrapper": o["name"], "args": wit, "config": cfg, "expected": kind})
        for cfg, line, safe in o["fma"]:
            fma_total += 1
            if not safe:
                fma_bad.add((cfg, line, o["name"]))
    for cfg, line, name in sorted(fma_bad):
        V.oblige(False)
        V.violation("contraction-dependent", "fmuladd", "%s [%s]: llvm.fmuladd at IR line %d: fused and unfused evaluation may round differently "
                    "(multiplier is not a power of two or the product can overflow/underflow)" % (name, cfg, line))
    V.oblige(True, len(set((c, l) for c, l, s in [(a, b, c) for o in outs for a, b, c in o["fma"]])) - len(fma_bad))
    sqrt_algorithms(V)
    V.cover["programs"] = 2 * len(names)
    if len(names) < 250 and tier != "quick":
        V.broke("only %d wrappers compared" % len(names))
    expl = ("DECIDED: (a) in K17A and K20 every library function definition in the driver TU is constexpr except those only called from the "
            "else-arm of if(std::is_constant_evaluated()); no asm/goto/reinterpret_cast/static local/try/throw in constexpr library code; "
            "together with C07 (no UB for any input) this is 'every call that returns at run time is accepted as a constant expression'. "
            "The out-of-line lookup-table family is a recorded finding. (b) for each wrapper the path summaries built with -std=c++17 and "
            "-std=c++20 are compared pair by pair (summary equivalence): identical returned forms on every jointly feasible path pair. "
            "(c) every llvm.fmuladd in library code has a power-of-two multiplier with an exact product, so -ffp-contract cannot change "
            "results. (d) no reachable UB in any wrapper in either configuration (so every -O level yields the abstract-machine value), and "
            "no [[gnu::const]]/[[gnu::pure]] function writes through a reference. (e) the two square-root algorithms: detail::sqrt_abacus returns floor(y) with "
            "y = sqrt(65536 raw) (inductive loop invariant, fxai.isqrt) and detail::sqrt_std_math returns an integer within 0.5 + 2^-19 of y "
            "(shape lemma of C13), so their difference is 0 or 1 ulp for every 0 <= raw < 2^47. GCC/Clang code generators are trusted.")
    return V.finish("other", expl, "./fx check C08 --tier %s" % tier,
                    extra={"wrappers_compared": len(names), "joint_path_pairs": pairs, "fmuladd_sites_seen": fma_total, "configs": ["K17", "K17A", "K20"]})
