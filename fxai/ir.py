"""Parser for the subset of textual LLVM-14 IR that survives the fx pipeline
(always-inline + inline + sroa on -O1 -disable-llvm-passes output).

Anything outside the subset raises IRUnsupported naming the instruction: the
analyser never guesses (DESIGN 3.1).
"""
import re
import struct
from fractions import Fraction


class IRUnsupported(Exception):
    pass


# ---------------------------------------------------------------- types
class Ty:
    __slots__ = ("kind", "bits", "elem", "n", "fields", "name")

    def __init__(self, kind, bits=0, elem=None, n=0, fields=None, name=None):
        self.kind = kind      # 'int','double','float','x86_fp80','ptr','array','struct','void','named'
        self.bits = bits
        self.elem = elem
        self.n = n
        self.fields = fields
        self.name = name

    def __repr__(self):
        if self.kind == "int":
            return "i%d" % self.bits
        if self.kind == "ptr":
            return "%r*" % (self.elem,)
        if self.kind == "array":
            return "[%d x %r]" % (self.n, self.elem)
        if self.kind == "struct":
            return "{" + ",".join(map(repr, self.fields)) + "}"
        if self.kind == "named":
            return "%" + self.name
        return self.kind


class Operand:
    """kind: 'reg' (name), 'int' (value), 'fp' (python float or ('fp80', int)),
    'global' (name), 'null', 'undef', 'gepconst' (global, [indices])"""
    __slots__ = ("kind", "val", "ty")

    def __init__(self, kind, val, ty):
        self.kind = kind
        self.val = val
        self.ty = ty

    def __repr__(self):
        return "%s:%r" % (self.kind, self.val)


class Inst:
    __slots__ = ("res", "op", "ty", "ops", "attrs", "dbg", "text", "line")

    def __init__(self, res, op, ty, ops, attrs, dbg, text, line):
        self.res = res
        self.op = op
        self.ty = ty
        self.ops = ops
        self.attrs = attrs
        self.dbg = dbg
        self.text = text
        self.line = line

    def __repr__(self):
        return self.text


class Block:
    __slots__ = ("name", "insts")

    def __init__(self, name):
        self.name = name
        self.insts = []


class Function:
    def __init__(self, name, ret, params):
        self.name = name
        self.ret = ret
        self.params = params          # list of (name, Ty)
        self.blocks = {}
        self.order = []
        self.dbg = None


class Module:
    def __init__(self):
        self.functions = {}
        self.globals = {}             # name -> (Ty, initializer python structure or None, is_const, linkage)
        self.named_types = {}
        self.md = {}                  # id -> dict for DILocation/DISubprogram/DIFile
        self.stores_to = set()        # globals that are stored to anywhere


_tok_re = re.compile(r'''
    \s*(
      %"(?:[^"\\]|\\.)*"       |   # quoted local / type
      @"(?:[^"\\]|\\.)*"       |   # quoted global
      [%@][-a-zA-Z$._0-9]+     |   # local/global/type name
      ![0-9A-Za-z_.]+          |   # metadata
      \#[0-9]+                 |
      c"(?:[^"\\]|\\.)*"       |
      "(?:[^"\\]|\\.)*"        |
      0x[KMLH]?[0-9A-Fa-f]+    |
      -?[0-9]+\.[0-9]*(?:[eE][-+]?[0-9]+)? |
      -?[0-9]+                 |
      \.\.\.                   |
      [a-zA-Z_][a-zA-Z0-9_.]*  |
      [\[\]{}()<>,=*]
    )''', re.X)


def tokenize(s):
    out = []
    pos = 0
    n = len(s)
    while pos < n:
        m = _tok_re.match(s, pos)
        if not m:
            if s[pos:].strip() == "":
                break
            raise IRUnsupported("cannot tokenize: %r" % s[pos:pos + 40])
        out.append(m.group(1))
        pos = m.end()
    return out


class TokStream:
    def __init__(self, toks):
        self.t = toks
        self.i = 0

    def peek(self, k=0):
        j = self.i + k
        return self.t[j] if j < len(self.t) else None

    def next(self):
        v = self.t[self.i]
        self.i += 1
        return v

    def expect(self, x):
        v = self.next()
        if v != x:
            raise IRUnsupported("expected %r got %r in %r" % (x, v, " ".join(self.t)))
        return v

    def accept(self, x):
        if self.peek() == x:
            self.i += 1
            return True
        return False

    def done(self):
        return self.i >= len(self.t)


def _unq(name):
    # %"foo" -> foo ; %foo -> foo ; @"x" -> x
    n = name[1:]
    if n.startswith('"'):
        n = n[1:-1]
    return n


def parse_type(ts, mod):
    t = ts.next()
    if t == "void":
        ty = Ty("void")
    elif re.fullmatch(r"i[0-9]+", t):
        ty = Ty("int", int(t[1:]))
    elif t in ("double", "float", "x86_fp80", "half"):
        ty = Ty(t)
    elif t == "ptr":
        ty = Ty("ptr", elem=None)
    elif t == "[":
        n = int(ts.next())
        ts.expect("x")
        e = parse_type(ts, mod)
        ts.expect("]")
        ty = Ty("array", elem=e, n=n)
    elif t == "{":
        fields = []
        if not ts.accept("}"):
            while True:
                fields.append(parse_type(ts, mod))
                if ts.accept("}"):
                    break
                ts.expect(",")
        ty = Ty("struct", fields=fields)
    elif t == "<":
        # packed struct <{ ... }> or vector: unsupported unless packed struct
        if ts.peek() == "{":
            inner = parse_type(ts, mod)
            ts.expect(">")
            ty = inner
        else:
            raise IRUnsupported("vector type")
    elif t.startswith("%"):
        ty = Ty("named", name=_unq(t))
    elif t == "label":
        ty = Ty("label")
    elif t == "metadata":
        ty = Ty("metadata")
    else:
        raise IRUnsupported("type token %r" % t)
    # suffixes: pointers and function types
    while True:
        p = ts.peek()
        if p == "*":
            ts.next()
            ty = Ty("ptr", elem=ty)
        elif p == "(":
            # function type: skip to matching paren
            depth = 0
            while True:
                x = ts.next()
                if x == "(":
                    depth += 1
                elif x == ")":
                    depth -= 1
                    if depth == 0:
                        break
            ty = Ty("func", elem=ty)
        else:
            break
    return ty


def resolve(ty, mod):
    while ty.kind == "named":
        ty = mod.named_types[ty.name]
    return ty


def sizeof(ty, mod):
    ty = resolve(ty, mod)
    if ty.kind == "int":
        return (ty.bits + 7) // 8
    if ty.kind == "double":
        return 8
    if ty.kind == "float":
        return 4
    if ty.kind == "ptr":
        return 8
    if ty.kind == "array":
        return ty.n * sizeof(ty.elem, mod)
    if ty.kind == "struct":
        # all structs met here are homogeneous single-field wrappers; compute
        # natural layout without padding subtleties but check alignment need
        off = 0
        for f in ty.fields:
            s = sizeof(f, mod)
            a = alignof(f, mod)
            off = (off + a - 1) // a * a
            off += s
        a = alignof(ty, mod)
        return (off + a - 1) // a * a
    raise IRUnsupported("sizeof %r" % ty)


def alignof(ty, mod):
    ty = resolve(ty, mod)
    if ty.kind in ("int", "double", "float", "ptr"):
        return min(8, sizeof(ty, mod)) or 1
    if ty.kind == "array":
        return alignof(ty.elem, mod)
    if ty.kind == "struct":
        return max([alignof(f, mod) for f in ty.fields] or [1])
    raise IRUnsupported("alignof %r" % ty)


def field_offset(ty, idx, mod):
    ty = resolve(ty, mod)
    off = 0
    for k, f in enumerate(ty.fields):
        a = alignof(f, mod)
        off = (off + a - 1) // a * a
        if k == idx:
            return off
        off += sizeof(f, mod)
    raise IRUnsupported("field index")


def decode_fp_hex(tok, ty):
    """LLVM hex FP literals: 0x<16 hex> is always the binary64 pattern (also for float);
    0xK<20 hex> is x86_fp80."""
    if tok.startswith("0xK"):
        v = int(tok[3:], 16)
        sign = (v >> 79) & 1
        exp = (v >> 64) & 0x7FFF
        mant = v & ((1 << 64) - 1)
        if exp == 0x7FFF:
            raise IRUnsupported("fp80 inf/nan constant")
        if exp == 0 and mant == 0:
            return ("fp80", Fraction(0))
        fr = Fraction(mant, 1 << 63) * (Fraction(2) ** (exp - 16383))
        return ("fp80", -fr if sign else fr)
    if tok.startswith("0x") and tok[2] in "MLH":
        raise IRUnsupported("fp literal kind " + tok)
    bits = int(tok[2:], 16)
    return struct.unpack("<d", struct.pack("<Q", bits))[0]


def parse_const_value(ts, ty, mod):
    """Parse a constant of type ty appearing in a global initializer. Returns python structure:
    int, float, list (array/struct), 'zero', or None for unsupported-but-irrelevant."""
    rty = resolve(ty, mod)
    t = ts.peek()
    if t == "zeroinitializer":
        ts.next()
        return "zero"
    if t in ("undef", "null", "poison"):
        ts.next()
        return None
    if rty.kind == "int":
        v = ts.next()
        if v == "true":
            return 1
        if v == "false":
            return 0
        return int(v)
    if rty.kind in ("double", "float"):
        v = ts.next()
        if v.startswith("0x"):
            return decode_fp_hex(v, rty)
        return float(v)
    if rty.kind == "array":
        if t == "[":
            ts.next()
            out = []
            if not ts.accept("]"):
                while True:
                    ety = parse_type(ts, mod)
                    out.append(parse_const_value(ts, ety, mod))
                    if ts.accept("]"):
                        break
                    ts.expect(",")
            return out
        if t.startswith('c"'):
            ts.next()
            return None
    if rty.kind == "struct":
        if t == "{" or t == "<":
            packed = ts.accept("<")
            ts.expect("{")
            out = []
            if not ts.accept("}"):
                while True:
                    ety = parse_type(ts, mod)
                    out.append(parse_const_value(ts, ety, mod))
                    if ts.accept("}"):
                        break
                    ts.expect(",")
            if packed:
                ts.expect(">")
            return out
    # anything else (function pointers, constant expressions): skip
    depth = 0
    while not ts.done():
        x = ts.peek()
        if x in "([{<":
            depth += 1
        elif x in ")]}>":
            if depth == 0:
                break
            depth -= 1
        elif x == "," and depth == 0:
            break
        ts.next()
    return None


def parse_operand(ts, ty, mod):
    """Parse a value operand of known type."""
    t = ts.next()
    rty = resolve(ty, mod) if ty.kind == "named" else ty
    if t.startswith("%"):
        return Operand("reg", _unq(t), ty)
    if t.startswith("@"):
        return Operand("global", _unq(t), ty)
    if t in ("true", "false"):
        return Operand("int", 1 if t == "true" else 0, ty)
    if t in ("null",):
        return Operand("null", 0, ty)
    if t in ("undef", "poison"):
        return Operand("undef", None, ty)
    if t == "zeroinitializer":
        return Operand("int", 0, ty)
    if t == "ptrtoint":
        # constant expression  ptrtoint (<ptr type> <constant pointer> to iN)
        ts.expect("(")
        sty = parse_type(ts, mod)
        src = parse_operand(ts, sty, mod)
        ts.expect("to")
        parse_type(ts, mod)
        ts.expect(")")
        return Operand("p2iconst", src, ty)
    if rty.kind == "int":
        return Operand("int", int(t), ty)
    if rty.kind in ("double", "float", "x86_fp80"):
        if t.startswith("0x"):
            return Operand("fp", decode_fp_hex(t, rty), ty)
        return Operand("fp", float(t), ty)
    if t == "getelementptr":
        ts.accept("inbounds")
        ts.expect("(")
        bty = parse_type(ts, mod)
        ts.expect(",")
        pty = parse_type(ts, mod)
        base = parse_operand(ts, pty, mod)
        idx = []
        while ts.accept(","):
            ity = parse_type(ts, mod)
            idx.append(parse_operand(ts, ity, mod))
        ts.expect(")")
        return Operand("gepconst", (bty, base, idx), ty)
    if t == "bitcast":
        ts.expect("(")
        sty = parse_type(ts, mod)
        src = parse_operand(ts, sty, mod)
        ts.expect("to")
        parse_type(ts, mod)
        ts.expect(")")
        return Operand("bitcast", src, ty)
    raise IRUnsupported("operand %r of type %r" % (t, ty))


_PARAM_ATTRS = {"noundef", "zeroext", "signext", "nonnull", "nocapture", "readonly", "readnone",
                "writeonly", "noalias", "immarg", "returned", "inreg", "nofree", "nest"}

_FAST = {"nnan", "ninf", "nsz", "arcp", "contract", "afn", "reassoc", "fast"}

_BINOPS = {"add", "sub", "mul", "sdiv", "udiv", "srem", "urem", "shl", "ashr", "lshr", "and", "or", "xor",
           "fadd", "fsub", "fmul", "fdiv", "frem"}
_CASTS = {"sext", "zext", "trunc", "sitofp", "uitofp", "fptosi", "fptoui", "fpext", "fptrunc",
          "ptrtoint", "inttoptr", "bitcast"}


def _skip_param_attrs(ts):
    while True:
        p = ts.peek()
        if p in _PARAM_ATTRS:
            ts.next()
        elif p in ("align", "dereferenceable", "dereferenceable_or_null"):
            ts.next()
            if ts.peek() == "(":
                ts.next(); ts.next(); ts.expect(")")
            else:
                ts.next()
        elif p in ("byval", "sret", "elementtype"):
            ts.next()
            if ts.accept("("):
                depth = 1
                while depth:
                    x = ts.next()
                    if x == "(":
                        depth += 1
                    elif x == ")":
                        depth -= 1
        else:
            break


def parse_inst(line, mod, lineno):
    text = line.strip()
    # split off metadata suffix
    dbg = None
    m = re.search(r", !dbg !([0-9]+)", text)
    if m:
        dbg = int(m.group(1))
    # remove trailing metadata attachments
    core = re.split(r",\s*![a-zA-Z_.]+\s+!", text)[0]
    toks = tokenize(core)
    ts = TokStream(toks)
    res = None
    if ts.peek(1) == "=" and ts.peek().startswith("%"):
        res = _unq(ts.next())
        ts.next()
    op = ts.next()
    attrs = set()
    if op == "tail" or op == "musttail" or op == "notail":
        op = ts.next()
    if op in _BINOPS:
        while ts.peek() in ("nsw", "nuw", "exact") or ts.peek() in _FAST:
            attrs.add(ts.next())
        ty = parse_type(ts, mod)
        a = parse_operand(ts, ty, mod)
        ts.expect(",")
        b = parse_operand(ts, ty, mod)
        return Inst(res, op, ty, [a, b], attrs, dbg, text, lineno)
    if op == "fneg":
        while ts.peek() in _FAST:
            ts.next()
        ty = parse_type(ts, mod)
        a = parse_operand(ts, ty, mod)
        return Inst(res, op, ty, [a], attrs, dbg, text, lineno)
    if op in ("icmp", "fcmp"):
        while ts.peek() in _FAST:
            ts.next()
        pred = ts.next()
        ty = parse_type(ts, mod)
        a = parse_operand(ts, ty, mod)
        ts.expect(",")
        b = parse_operand(ts, ty, mod)
        return Inst(res, op, ty, [a, b], {pred}, dbg, text, lineno)
    if op in _CASTS:
        sty = parse_type(ts, mod)
        a = parse_operand(ts, sty, mod)
        ts.expect("to")
        dty = parse_type(ts, mod)
        return Inst(res, op, dty, [a], attrs, dbg, text, lineno)
    if op == "select":
        while ts.peek() in _FAST:
            ts.next()
        cty = parse_type(ts, mod)
        c = parse_operand(ts, cty, mod)
        ts.expect(",")
        ty = parse_type(ts, mod)
        a = parse_operand(ts, ty, mod)
        ts.expect(",")
        ty2 = parse_type(ts, mod)
        b = parse_operand(ts, ty2, mod)
        return Inst(res, op, ty, [c, a, b], attrs, dbg, text, lineno)
    if op == "phi":
        while ts.peek() in _FAST:
            ts.next()
        ty = parse_type(ts, mod)
        inc = []
        while True:
            ts.expect("[")
            v = parse_operand(ts, ty, mod)
            ts.expect(",")
            lab = _unq(ts.next())
            ts.expect("]")
            inc.append((v, lab))
            if not ts.accept(","):
                break
        return Inst(res, op, ty, inc, attrs, dbg, text, lineno)
    if op == "br":
        if ts.peek() == "label":
            ts.next()
            return Inst(None, "br", None, [_unq(ts.next())], attrs, dbg, text, lineno)
        ty = parse_type(ts, mod)
        c = parse_operand(ts, ty, mod)
        ts.expect(","); ts.expect("label")
        t1 = _unq(ts.next())
        ts.expect(","); ts.expect("label")
        t2 = _unq(ts.next())
        return Inst(None, "condbr", None, [c, t1, t2], attrs, dbg, text, lineno)
    if op == "switch":
        ty = parse_type(ts, mod)
        c = parse_operand(ts, ty, mod)
        ts.expect(","); ts.expect("label")
        dflt = _unq(ts.next())
        ts.expect("[")
        cases = []
        while not ts.accept("]"):
            cty = parse_type(ts, mod)
            cv = parse_operand(ts, cty, mod)
            ts.expect(","); ts.expect("label")
            cases.append((cv.val, _unq(ts.next())))
        return Inst(None, "switch", ty, [c, dflt, cases], attrs, dbg, text, lineno)
    if op == "ret":
        ty = parse_type(ts, mod)
        if ty.kind == "void":
            return Inst(None, "ret", ty, [], attrs, dbg, text, lineno)
        v = parse_operand(ts, ty, mod)
        return Inst(None, "ret", ty, [v], attrs, dbg, text, lineno)
    if op == "unreachable":
        return Inst(None, "unreachable", None, [], attrs, dbg, text, lineno)
    if op == "extractvalue":
        ty = parse_type(ts, mod)
        a = parse_operand(ts, ty, mod)
        ts.expect(",")
        idx = int(ts.next())
        return Inst(res, op, ty, [a, idx], attrs, dbg, text, lineno)
    if op == "load":
        ts.accept("volatile")
        ty = parse_type(ts, mod)
        ts.expect(",")
        pty = parse_type(ts, mod)
        p = parse_operand(ts, pty, mod)
        return Inst(res, op, ty, [p], attrs, dbg, text, lineno)
    if op == "store":
        ts.accept("volatile")
        ty = parse_type(ts, mod)
        v = parse_operand(ts, ty, mod)
        ts.expect(",")
        pty = parse_type(ts, mod)
        p = parse_operand(ts, pty, mod)
        return Inst(None, op, ty, [v, p], attrs, dbg, text, lineno)
    if op == "getelementptr":
        if ts.accept("inbounds"):
            attrs.add("inbounds")
        bty = parse_type(ts, mod)
        ts.expect(",")
        pty = parse_type(ts, mod)
        p = parse_operand(ts, pty, mod)
        idx = []
        while ts.accept(","):
            ity = parse_type(ts, mod)
            idx.append(parse_operand(ts, ity, mod))
        return Inst(res, op, bty, [p] + idx, attrs, dbg, text, lineno)
    if op == "call":
        while ts.peek() in _FAST or ts.peek() in ("fastcc", "ccc"):
            ts.next()
        _skip_param_attrs(ts)
        rty = parse_type(ts, mod)
        callee = ts.next()
        if not callee.startswith("@"):
            raise IRUnsupported("indirect call: " + text)
        callee = _unq(callee)
        ts.expect("(")
        args = []
        if not ts.accept(")"):
            while True:
                aty = parse_type(ts, mod)
                _skip_param_attrs(ts)
                if aty.kind == "metadata":
                    # debug intrinsics
                    depth = 0
                    while True:
                        x = ts.peek()
                        if x == "(":
                            depth += 1
                        elif x == ")":
                            if depth == 0:
                                break
                            depth -= 1
                        elif x == "," and depth == 0:
                            break
                        ts.next()
                    args.append(None)
                else:
                    args.append(parse_operand(ts, aty, mod))
                if ts.accept(")"):
                    break
                ts.expect(",")
        return Inst(res, "call", rty, [callee] + args, attrs, dbg, text, lineno)
    if op == "alloca":
        ty = parse_type(ts, mod)
        return Inst(res, "alloca", ty, [], attrs, dbg, text, lineno)
    raise IRUnsupported("instruction not in the supported subset: %s" % text)


_md_loc = re.compile(r"^!([0-9]+) = (?:distinct )?!DILocation\((.*)\)$")
_md_sub = re.compile(r"^!([0-9]+) = (?:distinct )?!DISubprogram\((.*)\)$")
_md_file = re.compile(r"^!([0-9]+) = (?:distinct )?!DIFile\((.*)\)$")
_md_lex = re.compile(r"^!([0-9]+) = (?:distinct )?!DILexicalBlock(?:File)?\((.*)\)$")


def _md_fields(s):
    out = {}
    for m in re.finditer(r'(\w+): ("(?:[^"\\]|\\.)*"|![0-9]+|[-\w|]+)', s):
        v = m.group(2)
        if v.startswith('"'):
            v = v[1:-1]
        elif v.startswith("!"):
            v = int(v[1:])
        out[m.group(1)] = v
    return out


def parse_module(text):
    mod = Module()
    lines = text.split("\n")
    # pass 1: named types
    for ln in lines:
        if ln.startswith("%") and " = type " in ln:
            name, rest = ln.split(" = type ", 1)
            if rest.strip() == "opaque":
                mod.named_types[_unq(name.strip())] = Ty("struct", fields=[])
                continue
            ts = TokStream(tokenize(rest))
            mod.named_types[_unq(name.strip())] = parse_type(ts, mod)
    cur = None
    blk = None
    for lineno, ln in enumerate(lines, 1):
        if not ln:
            continue
        if cur is None:
            if ln.startswith("@"):
                _parse_global(ln, mod)
            elif ln.startswith("define "):
                cur = _parse_define(ln, mod)
                blk = None
            elif ln.startswith("!"):
                m = _md_loc.match(ln)
                if m:
                    d = _md_fields(m.group(2)); d["k"] = "loc"
                    mod.md[int(m.group(1))] = d
                    continue
                m = _md_sub.match(ln)
                if m:
                    d = _md_fields(m.group(2)); d["k"] = "sub"
                    mod.md[int(m.group(1))] = d
                    continue
                m = _md_file.match(ln)
                if m:
                    d = _md_fields(m.group(2)); d["k"] = "file"
                    mod.md[int(m.group(1))] = d
                    continue
                m = _md_lex.match(ln)
                if m:
                    d = _md_fields(m.group(2)); d["k"] = "lex"
                    mod.md[int(m.group(1))] = d
            continue
        # inside function
        if ln == "}":
            mod.functions[cur.name] = cur
            cur = None
            continue
        s = ln.strip()
        if not s or s.startswith(";"):
            continue
        m = re.match(r'^("(?:[^"\\]|\\.)*"|[-a-zA-Z$._0-9]+):', ln)
        if m and not ln.startswith(" "):
            nm = m.group(1)
            if nm.startswith('"'):
                nm = nm[1:-1]
            blk = Block(nm)
            cur.blocks[nm] = blk
            cur.order.append(nm)
            continue
        if blk is None:
            # implicit entry block: its label is the next unnamed value number
            nm = cur.entry_label
            blk = Block(nm)
            cur.blocks[nm] = blk
            cur.order.append(nm)
        if cur.lazy:
            blk.insts.append((ln, lineno))
        else:
            blk.insts.append(parse_inst(ln, mod, lineno))
    return mod


def _parse_global(ln, mod):
    m = re.match(r'^(@"(?:[^"\\]|\\.)*"|@[-a-zA-Z$._0-9]+) = (.*)$', ln)
    if not m:
        return
    name = _unq(m.group(1))
    rest = m.group(2)
    rest = re.split(r",\s*(?:align|comdat|section|!dbg)\b", rest)[0]
    toks = tokenize(rest)
    ts = TokStream(toks)
    is_const = False
    linkage = []
    while ts.peek() in ("private", "internal", "external", "linkonce_odr", "weak_odr", "common", "appending",
                        "dso_local", "unnamed_addr", "local_unnamed_addr", "hidden", "weak", "linkonce",
                        "available_externally", "thread_local", "dso_preemptable"):
        linkage.append(ts.next())
    k = ts.next()
    if k == "constant":
        is_const = True
    elif k != "global":
        return  # alias etc.
    try:
        ty = parse_type(ts, mod)
        init = None
        if not ts.done():
            init = parse_const_value(ts, ty, mod)
    except IRUnsupported:
        return
    mod.globals[name] = (ty, init, is_const, linkage)


def _parse_define(ln, mod):
    m = re.match(r'^define (.*?)(@"(?:[^"\\]|\\.)*"|@[-a-zA-Z$._0-9]+)\((.*)\)([^()]*)\{$', ln)
    if not m:
        raise IRUnsupported("define line: " + ln)
    name = _unq(m.group(2))
    pre = tokenize(m.group(1))
    # return type is the last type in pre, after linkage/attrs
    ts = TokStream(pre)
    ret = None
    while not ts.done():
        p = ts.peek()
        if p in ("dso_local", "internal", "linkonce_odr", "weak_odr", "private", "hidden", "noundef", "zeroext",
                 "signext", "available_externally", "weak", "nonnull", "noalias", "external", "fastcc", "ccc"):
            ts.next()
            continue
        if p in ("align", "dereferenceable"):
            ts.next()
            if ts.accept("("):
                ts.next(); ts.expect(")")
            else:
                ts.next()
            continue
        ret = parse_type(ts, mod)
    params = []
    ptoks = tokenize(m.group(3))
    ts = TokStream(ptoks)
    k = 0
    while not ts.done():
        ty = parse_type(ts, mod)
        _skip_param_attrs(ts)
        if ts.peek() and ts.peek().startswith("%"):
            pn = _unq(ts.next())
        else:
            pn = str(k)
        params.append((pn, ty))
        k += 1
        ts.accept(",")
    f = Function(name, ret, params)
    # entry label = number after the last unnamed param
    unnamed = [p for p, _ in params if p.isdigit()]
    f.entry_label = str(len(unnamed)) if all(p.isdigit() for p, _ in params) else str(len(unnamed))
    dm = re.search(r"!dbg !([0-9]+)", m.group(4))
    f.dbg = int(dm.group(1)) if dm else None
    # only wrappers (w_*) and control functions are parsed eagerly
    f.lazy = not (name.startswith("w_") or name.startswith("c_"))
    return f


def materialize(fn, mod):
    """Parse the instructions of a lazily-read function."""
    if not fn.lazy:
        return fn
    for b in fn.blocks.values():
        b.insts = [parse_inst(ln, mod, no) for ln, no in b.insts]
    fn.lazy = False
    return fn


def dbg_chain(mod, dbg_id):
    """Return [(function, file, line), ...] from innermost outwards through inlinedAt."""
    out = []
    seen = 0
    while dbg_id is not None and seen < 64:
        seen += 1
        d = mod.md.get(dbg_id)
        if not d or d.get("k") != "loc":
            break
        line = d.get("line", "0")
        scope = d.get("scope")
        fn, fl, detail = _scope_info(mod, scope)
        out.append((fn, fl, int(line), detail))
        dbg_id = d.get("inlinedAt")
    return out


def _scope_info(mod, scope):
    n = 0
    while scope is not None and n < 64:
        n += 1
        d = mod.md.get(scope)
        if d is None:
            return ("?", "?", False)
        if d["k"] == "sub":
            f = mod.md.get(d.get("file"), {})
            ln = d.get("linkageName", "")
            fname = f.get("filename", "?")
            # internal = in namespace detail / cxx20 helper / std:: ; public = everything else in fixedmath
            internal = ("6detail" in ln) or ln.startswith("_ZN5cxx20") or ln.startswith("_ZSt") or ln.startswith("_ZNSt") \
                or ln.startswith("_ZNKSt") or ln.startswith("_ZN9__gnu_cxx")
            return (d.get("name", ln or "?"), fname, internal)
        scope = d.get("scope")
    return ("?", "?", False)
