"""C12: asin/acos NaN exactly for |x| > 1; asin odd; acos(x) within 1 ulp of pi/2 - asin(x); backward/forward accuracy of asin:
decided for the std::sqrt builds and (through the verified isqrt summary of the loop) for the abacus build; asin non-decreasing
by direction tags of the engine plus junction values: every clause decided."""
from . import common, lib
from .lib import M, FIN, E, sym
from .c09 import const_of
from fxai.interp import Broken
from fxai.state import IntV

ONE = 65536
EXTRA = [
    E("w_pidiv2", [], "fx", "return fixpidiv2.v;"),
    E("w_negasinneg", ["fx"], "fx", "return (-asin(-as_fixed(a))).v;"),
    E("w_acos_diff", ["fx"], "fx", "return acos(as_fixed(a)).v - (fixpidiv2.v - asin(as_fixed(a)).v);"),
    E("w_asin_oddsum", ["fx"], "fx", "return asin(as_fixed(a)).v + asin(-as_fixed(a)).v;"),
]


def run(tier, seed):
    V = common.Verdict("C12", tier, seed)
    configs = ["K17", "K17A", "K20"]
    x = sym(0)
    for cfg in configs:
        try:
            ctx = lib.Ctx(cfg, EXTRA, only={"w_asin", "w_acos", "w_pidiv2", "w_negasinneg", "w_acos_diff", "w_asin_oddsum"})
            for w in ("w_asin", "w_acos"):
                for nm, box, exp in (("x>1", ("i", ONE + 1, M - 1), ("const", M)), ("x<-1", ("i", -(M - 1), -ONE - 1), ("const", M)),
                                     ("|x|<=1", ("i", -ONE, ONE), ("range", -(1 << 20), 1 << 20))):
                    r = ctx.run(w, [box])
                    lib.check_regions(V, r, [(nm, [], exp)],
                                      lambda a, o: o[0] != "ret" or ((abs(o[1]) == M) != (abs(a[0]) > ONE)),
                                      "%s is NaN exactly for |x| > 1" % w[2:], site=w[2:])
                    for a in r.alarms:
                        if a.status == "violation":
                            V.oblige(False)
                            V.violation(a.kind, a.site, "%s in %s(%s) [%s] at %s" % (a.kind, w, a.witness, cfg, a.where), lib.rp(r, a.witness, a.kind))
                        elif a.status == "inconclusive":
                            V.inconc("%s [%s]: %s at %s unresolved" % (w, cfg, a.kind, a.where))
            dom = ("i", -ONE, ONE)
            # both relations are checked inside one program each, so that the two inlined copies of asin (and of the sqrt loop)
            # share their value numbers
            if cfg == "K17A":
                # the abacus loop is a verified integer square root (fxai.isqrt): the engine applies its summary isqrt(N), a value-numbered
                # term shared by the inlined copies, instead of unrolling it
                ctx = lib.Ctx(cfg, EXTRA, only={"w_asin", "w_acos_diff", "w_asin_oddsum"}, summaries=True)
                r0 = ctx.run("w_asin", [("i", 0, 65536)])
                nsum = r0.stats.get("loop_summaries", 0)
                V.oblige(nsum > 0)
                V.cover.setdefault("abacus_summaries_applied", {})[cfg] = nsum
                if not nsum:
                    V.inconc("w_asin [%s]: the sqrt loop was not recognised as a verified integer square root (%s)" % (cfg, r0.an.isqrt_why))
                    continue
            if cfg in ("K17", "K17A") or tier != "quick":
                asin_accuracy(V, ctx, cfg)
            # asin non-decreasing on [0, 1] (negative arguments by the exact oddness): direction tags + junction values
            ctxm = lib.Ctx(cfg, EXTRA, only={"w_asin"}, summaries=(cfg == "K17A"), track_mono=True)
            rm = ctxm.run("w_asin", [("i", 0, ONE)])
            okm = lib.check_monotone(V, rm, 0, ONE, "asin is non-decreasing", "asin")
            if not okm and not V.violations:
                # look for a concrete decreasing pair before leaving the clause undecided
                prevv = None
                for q in range(0, ONE + 1, 1 if tier != "quick" else 7):
                    o = rm.conc((q,))
                    if o[0] == "ret" and prevv is not None and o[1] < prevv[1]:
                        V.violation("asin is non-decreasing", "asin", "asin(%d) = %d but asin(%d) = %d [%s]" % (prevv[0], prevv[1], q, o[1], cfg),
                                    lib.rp(rm, (prevv[0],), "asin non-decreasing: compare with argument %d" % q))
                        break
                    if o[0] == "ret":
                        prevv = (q, o[1])
            r = ctx.run("w_asin_oddsum", [dom])
            lib.check_regions(V, r, [("|x|<=1", [], ("const", 0))], lambda a, o: o != ("ret", 0), "asin(x) + asin(-x) == 0", site="asin")
            r = ctx.run("w_acos_diff", [dom])
            lib.check_regions(V, r, [("|x|<=1", [], ("range", -1, 1))], lambda a, o: o[0] != "ret" or abs(o[1]) > 1,
                              "acos(x) within 1 ulp of fixpidiv2 - asin(x)", site="acos")
        except Broken as e:
            V.broke("%s: %s" % (cfg, e))
    expl = ("DECIDED for the std::sqrt builds and the abacus build: asin and acos return the NaN constant on every path with |x.v| > 65536 and a "
            "bounded non-NaN value on |x.v| <= 65536; asin(x) + asin(-x) == 0 and acos(x) - (fixpidiv2 - asin(x)) in [-1,1] as region checks on "
            "single programs (the inlined copies of asin and of the square root share value numbers; acos uses phi/2 = fixpidiv2 - 1); the "
            "backward/forward clause F(x-2) - 4 <= asin_lib(x) <= F(min(x+2,1)) + 4 (F = 65536 asin) from |asin_lib - F| <= 4 + 2 F'(x-2), proved "
            "cell by cell with the idealised expression of both branches: the reflection branch contains fptosi(fma(sqrt(sitofp(a)/65536), 65536, .5)) "
            "(std::sqrt) or isqrt(65536 a) (abacus: the loop is verified to be an integer square root by its inductive invariant, fxai.isqrt, and "
            "replaced by that summary), and the 160 arguments next to 1 by constant propagation. asin non-decreasing: on every path the returned value carries the direction "
            "tag +1 (the series is a composition of sums, floor-shifted products of non-negative factors and constants; the reflection branch "
            "composes (1-x)>>1, the square root - correctly rounded std::sqrt or the verified isqrt summary -, the series and pi/2 - floor(./8)); "
            "the argument boxes of the paths tile [0, 1] overlapping at most in end points, and the values at the arguments around every "
            "junction, by constant propagation, are in order; negative arguments by the exact oddness. Every clause of C12 is decided.")
    return V.finish("proof", expl, "./fx check C12 --tier %s" % tier, extra={"configs": configs})


# ------------------------------------------------------------------ backward/forward accuracy of asin (std::sqrt builds)
def asin_F(x):
    """enclosure (Fractions, raw units) of 65536*asin(x/65536) for an integer 0 <= x <= 65536"""
    from fractions import Fraction
    from . import realmath as R
    t = R.asin_iv(R.iv(Fraction(x, 65536)))
    lo, hi = R.to_frac(t)
    return 65536 * lo, 65536 * hi


def asin_accuracy(V, ctx, cfg):
    """for every 0 <= x <= 1 there is x' within 2 ulp of x with |asin_lib(x) - asin x'| <= 4 ulp
       <=>  F(x-2) - 4 <= asin_lib(x) <= F(min(x+2, 1)) + 4     (F = 65536 asin, increasing)
       <=   |asin_lib(x) - F(x)| <= 4 + 2 F'(x-2)  for x + 2 <= 65536 (F convex on [0,1)); the last arguments are decided one by one."""
    from fractions import Fraction
    from . import fxnum, realmath as R
    from fxai import pipeline as P
    TOP = 65536 - 160
    r = ctx.run("w_asin", [("i", 0, 65536)])

    def fprime(x):
        """enclosure of 1/sqrt(1 - (x/65536)^2) for integer 0 <= x < 65536"""
        u = 1 - Fraction(x, 65536) ** 2
        lo = fxnum._sqrt_frac(u, False)
        hi = fxnum._sqrt_frac(u, True)
        return 1 / hi, 1 / lo

    def truth(a, b, x0):
        f0 = asin_F(x0)
        return f0, (fprime(a)[0], fprime(b)[1])

    def bound(a, b):
        if b > TOP:
            return None
        return 4 + 2 * fprime(max(a - 2, 0))[0]

    def adapt(a):
        return max(1, min(64, (65536 - a) // 96))

    def point_ok(x, out):
        if out[0] != "ret":
            return False
        lo = asin_F(max(x - 2, 0))[0] - 4
        hi = asin_F(min(x + 2, 65536))[1] + 4
        return lo <= out[1] <= hi
    fails, info = fxnum.prove_cells(V, r, truth, bound, "asin backward/forward accuracy", "asin", box=(0, TOP), adapt=adapt, min_cells=1000)
    fxnum.triage_fails(V, r, fails, point_ok, "exists x' within 2 ulp of x with |asin(x) - asin x'| <= 4 ulp", "asin")
    # the last arguments below 1: constant propagation, exact criterion
    for x in range(TOP + 1, 65537):
        rs = r.an.run(P.init_state(r.an.fn, [("i", x, x)]))
        vals = set(lib.ret_rng(q) for q in rs.paths)
        ok = False
        if len(vals) == 1 and not rs.alarms:
            lo, hi = next(iter(vals))
            ok = lo == hi and point_ok(x, ("ret", lo))
        V.oblige(ok)
        if not ok:
            out = r.conc((x,))
            if not point_ok(x, out):
                V.violation("exists x' within 2 ulp of x with |asin(x) - asin x'| <= 4 ulp", "asin", "asin(%d) [%s] = %s" % (x, cfg, lib.out_str(out)),
                            lib.rp(r, (x,), "asin accuracy"))
            else:
                V.inconc("w_asin [%s]: argument %d near 1 not decided by constant propagation" % (cfg, x))
    info["arguments_near_one"] = 65536 - TOP
    return info
