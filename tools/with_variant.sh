#!/bin/bash
# with_variant.sh <diff-file | revert:<commit>> -- <command...>   runs the command with FX_REPO pointing at a scratch copy of /repo
# with the variant applied; the scratch copy is removed afterwards.
set -e
V="$1"; [[ "$V" == revert:* ]] || V=$(realpath "$V"); shift; [ "$1" = "--" ] && shift
S=$(mktemp -d /tmp/fxvar-XXXXXX)
trap "rm -rf $S" EXIT
rsync -a --exclude _build --exclude .git /repo/ $S/
if [[ "$V" == revert:* ]]; then
  for c in $(echo "${V#revert:}" | tr ',' ' '); do
    git -C /repo show "$c" > $S/.var.diff
    (cd $S && patch -R -p1 -s < .var.diff)
  done
  rm -f $S/.var.diff
else
  (cd $S && patch -p1 -s < "$(realpath "$V")")
fi
export FX_REPO=$S
cd /verif
"$@"
