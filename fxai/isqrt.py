"""Digit-by-digit integer square root loops: inductive invariant by abstract execution of one iteration, and the loop summary
(result == floor(sqrt(N))) the engine may then apply instead of unrolling.

For the loop
        while (pwr4 != 0) { if (scaled >= result + pwr4) { scaled -= result + pwr4; result += pwr4 << 1; } result >>= 1; pwr4 >>= 2; }
the invariant at the loop head with pwr4 == 4^k is
        I_k :  scaled == N - a^2,  result == 2^(k+1) a,  a a multiple of 2^(k+1),  a + 2^(k+1) <= 2^32,  a^2 <= N < (a + 2^(k+1))^2
(N the value of `scaled` on entry, a the partial root).  a^2 is not linear: the head state carries an opaque symbol AA for it with
linear consequences of AA == a^2.  For every k = 31..0 one iteration is executed abstractly from that state and every path to the
back edge must deliver new loop variables of the shape I_(k-1) with a' = a + c, c in {0, 2^k}, AA' = AA + 2 c a + c^2 (== a'^2 by
the binomial identity, the only non-linear fact used).  The k == 0 iteration must leave the loop with result r = a + c and
r^2 <= N < (r+1)^2.  N is an unconstrained symbol in [0, 2^64), so the step proofs depend on the loop body only.
An entry state satisfies I_K with a == 0 iff result == 0, pwr4 == 4^K and 0 <= N < 4^(K+1): checked at every first arrival."""
from .lin import Lin, T
from .state import State, IntV, Infeasible

T64 = 1 << 64
T63 = 1 << 63
NSYM = "inv_N"


def uns(st, v):
    """unsigned value of an i64 abstract value as a Lin, or None when the sign is not determined on the state"""
    lo, hi = st.rng(v)
    if lo >= 0:
        return v.lin
    if hi < 0:
        return v.lin.addc(T64)
    return None


def pw4(c):
    return c > 0 and c & (c - 1) == 0 and (c.bit_length() - 1) % 2 == 0


def check_steps(an, h, role, log=None):
    """the inductive steps I_k -> I_(k-1) (k = 31..1) and the exit step (k = 0) for loop head h with the given roles
    {'result','pwr4','scaled'} -> phi names.  Returns (True, steps) or (False, reason)."""
    from .interp import Broken
    phis = an.head_phis[h]
    back = [a for (a, b) in an.back_edges if b == h]
    N = Lin.sym(NSYM)
    steps = 0
    body = {h}
    work = list(back)
    while work:
        n_ = work.pop()
        if n_ not in body:
            body.add(n_)
            work.extend(an.preds[n_])
    for k in range(31, -1, -1):
        st = State()
        st.block = h
        st.prev = back[0]
        st.pc = len(phis)
        st.phis_done = True
        st.arrived = False
        st.bounds[NSYM] = (0, T64 - 1)
        two = 1 << (k + 1)
        st.bounds["inv_m"] = (0, (1 << (31 - k)) - 1)
        a = Lin.sym("inv_m").scale(two)
        amax = (1 << 32) - two
        st.bounds["inv_AA"] = (0, amax * amax)
        AA = Lin.sym("inv_AA")
        try:
            # a^2 <= N < (a + 2^(k+1))^2, and linear consequences of AA == a^2 for a multiple of 2^(k+1) below 2^32
            st.constrain(N.sub(AA), 0, None)
            st.constrain(N.sub(AA).sub(a.scale(2 * two)).addc(-two * two), None, -1)
            st.constrain(AA.sub(a.scale(amax)), None, 0)
            st.constrain(AA.sub(a.scale(two)), 0, None)
        except Infeasible:
            return False, "I_%d is unsatisfiable" % k
        U = N.sub(AA)
        starts = []
        for lo_, hi_, adj in ((0, T63 - 1, 0), (T63, T64 - 1, -T64)):
            s2 = st.fork()
            try:
                s2.constrain(U, lo_, hi_)
                s2.env[role["scaled"]] = an.mk(s2, 64, U.addc(adj))
                s2.env[role["result"]] = an.mk(s2, 64, a.scale(two))
                s2.env[role["pwr4"]] = an.cint(64, 4 ** k)
            except Infeasible:
                continue
            starts.append(s2)
        if not starts:
            return False, "no start state for I_%d" % k
        for s2 in starts:
            saved = an.stop_hook
            # k > 0: stop on arrival at the head through the back edge; k == 0: stop on leaving the loop
            an.stop_hook = (lambda s: s.block == h and (s.prev, h) in an.back_edges) if k > 0 else (lambda s: s.block not in body)
            try:
                rs = an.run(s2)
            except Broken as e:
                return False, "iteration from I_%d could not be analysed: %s" % (k, e)
            finally:
                an.stop_hook = saved
            if rs.alarms:
                return False, "iteration from I_%d raises %s at line %s" % (k, rs.alarms[0].kind, rs.alarms[0].line)
            outs = rs.stopped
            if rs.paths or not outs:
                return False, "iteration from I_%d %s" % (k, "leaves the function" if rs.paths else "reaches neither the back edge nor a loop exit")
            for o in outs:
                steps += 1
                if k > 0:
                    an.do_phis(o)
                    s3 = o
                    rv = s3.env[role["result"]]
                    sv = s3.env[role["scaled"]]
                    if s3.rng(s3.env[role["pwr4"]]) != (4 ** (k - 1), 4 ** (k - 1)):
                        return False, "step from I_%d: pwr4 does not become 4^%d" % (k, k - 1)
                    half = 1 << k
                else:
                    s3 = o
                    rv = s3.env.get(role["result"])
                    pv = s3.env.get(role["pwr4"])
                    if not isinstance(rv, IntV) or not isinstance(pv, IntV) or s3.rng(pv) != (0, 0):
                        return False, "step from I_0: the loop is left with pwr4 != 0 or without a result"
                    half = 1
                dl, dh = s3.rng_lin_int(rv.lin.sub(a.scale(half)))
                if not (dl == dh and dl in (0, half * half)):
                    return False, "step from I_%d: result %s is not 2^%d (a + c) with c in {0, 2^%d}" % (k, rv.lin, k, k)
                c = dl // half
                AA2 = AA.add(a.scale(2 * c)).addc(c * c)
                a2 = a.addc(c)
                if k > 0:
                    su = uns(s3, sv)
                    if su is None or s3.rng_lin_int(su.sub(N.sub(AA2))) != (0, 0):
                        return False, "step from I_%d: scaled %s is not N - (a + %d)^2" % (k, sv.lin, c)
                l1, _ = s3.rng_lin_int(N.sub(AA2))
                _, h2 = s3.rng_lin_int(N.sub(AA2).sub(a2.scale(2 * half)).addc(-half * half))
                if not (l1 >= 0 and h2 <= -1 and s3.rng_lin_int(a2)[1] + half <= (1 << 32)):
                    return False, "step from I_%d: a'^2 <= N < (a' + 2^%d)^2 not entailed (N - a'^2 >= %s, N - (a'+2^%d)^2 <= %s)" % (
                        k, k, l1, k, h2)
    return True, steps


def find_spec(an, h):
    """roles of the three head phis under which loop h is a verified integer square root loop, or (None, reason)"""
    import itertools
    phis = an.head_phis.get(h, [])
    back = [a for (a, b) in an.back_edges if b == h]
    if len(phis) != 3 or an.loop_reads.get(h) or len(back) != 1:
        return None, "loop head %%%s: %d phis, %d back edges, outside reads %s" % (h, len(phis), len(back), sorted(an.loop_reads.get(h, ())))
    why = []
    for perm in itertools.permutations(phis):
        role = {"result": perm[0], "pwr4": perm[1], "scaled": perm[2]}
        try:
            ok, r = check_steps(an, h, role)
        except Exception as e:      # a wrong role assignment may drive the engine anywhere
            ok, r = False, "%s: %s" % (type(e).__name__, e)
        if ok:
            return {"role": role, "steps": r}, ""
        why.append(r)
    return None, "; ".join(sorted(set(why))[:3])


def prepare(an):
    """verify every loop of the analyzer's function once; loops that pass get a summary the engine applies at first arrival"""
    an.isqrt_spec = {}
    an.isqrt_why = {}
    for h in sorted(an.loop_heads):
        spec, why = find_spec(an, h)
        if spec is not None:
            an.isqrt_spec[h] = spec
        else:
            an.isqrt_why[h] = why
    return an.isqrt_spec


def entry_ok(an, s, h):
    """does the first-arrival state s (phis evaluated) satisfy I_K with a == 0?  returns (N form, K) or None"""
    spec = an.isqrt_spec.get(h)
    if spec is None:
        return None
    role = spec["role"]
    rv, pv, sv = s.env[role["result"]], s.env[role["pwr4"]], s.env[role["scaled"]]
    if not all(isinstance(v, IntV) for v in (rv, pv, sv)):
        return None
    if s.rng(rv) != (0, 0):
        return None
    pl, ph = s.rng(pv)
    if pl != ph or not pw4(pl):
        return None
    K = (pl.bit_length() - 1) // 2
    u = uns(s, sv)
    if u is None or K > 31:
        return None
    nl, nh = s.rng_lin_int(u)
    if nl < 0 or nh >= 4 ** (K + 1):
        return None
    return u, K


def apply_summary(an, s, h):
    """replace the loop by its summary on the first-arrival state s: result = isqrt(N), pwr4 = 0, scaled = N - result^2.
    Returns True when applied (the state then stands behind the head phis and leaves the loop)."""
    import math
    e = entry_ok(an, s, h)
    if e is None:
        return False
    u, K = e
    role = an.isqrt_spec[h]["role"]
    nl, nh = s.rng_lin_int(u)
    rl, rh = math.isqrt(nl), math.isqrt(nh)
    if rl == rh:
        r = an.cint(64, rl)
        rem = an.mk(s, 64, u.addc(-rl * rl))
    else:
        t = T("isqrt", u.key())
        sy = an.pmint(s, t, rl, rh, (u,))
        an.symdef[t] = ("isqrt", u)
        a, z = s.bounds[sy]
        r = IntV(64, Lin.sym(sy), a, z)
        t2 = T("isqrt.rem", u.key())
        sy2 = an.pmint(s, t2, 0, 2 * rh, (u,))
        a2, z2 = s.bounds[sy2]
        rem = IntV(64, Lin.sym(sy2), a2, z2)
    s.env[role["result"]] = r
    s.env[role["pwr4"]] = an.cint(64, 0)
    s.env[role["scaled"]] = rem
    if s.mono is not None:
        # floor(sqrt(N)) moves with N; the remainder does not
        tn = s.mono.get(role["scaled"])
        if tn is None:
            s.mono.pop(role["result"], None)
        else:
            s.mono[role["result"]] = tn
        s.mono[role["pwr4"]] = 0
        s.mono.pop(role["scaled"], None)
    s.pc = len(an.head_phis[h])
    s.phis_done = True
    return True
