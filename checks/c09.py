"""C09: sin and cos are exactly periodic (decided); accuracy and |result| <= 1 are not decided (DESIGN section 6)."""
from . import common, lib, reduce
from .lib import M, E, sym
from fxai.interp import Broken

T46 = (1 << 62) - 1      # |x| < 2^46 as a value is |raw| < 2^62
DOM = ("i", -T46, T46)
EXTRA = [
    E("w_phi", [], "fx", "return phi.v;"),
    E("w_pidiv2", [], "fx", "return fixpidiv2.v;"),
    E("w_sin_off", ["fx"], "fx", "return sin(as_fixed(a + fixpidiv2.v)).v;"),
]


def const_of(ctx, w):
    r = ctx.run(w, [])
    vals = set(lib.ret_rng(p) for p in r.paths)
    if len(vals) != 1:
        raise Broken("%s is not a constant" % w)
    lo, hi = vals.pop()
    if lo != hi:
        raise Broken("%s is not a constant" % w)
    return lo


def run(tier, seed):
    V = common.Verdict("C09", tier, seed)
    configs = ["K17", "K20"] if tier == "quick" else ["K17", "K20"]
    info = {}
    for cfg in configs:
        try:
            ctx = lib.Ctx(cfg, EXTRA)
            phi = const_of(ctx, "w_phi")
            m = 2 * phi
            r = ctx.run("w_sin", [DOM])
            if len(r.paths) < 4:
                V.broke("w_sin: only %d paths" % len(r.paths))
            w = reduce.check_reduction(V, r, m, "|x| < 2^46 (raw below 2^62)", "sin(x + k*2*phi) == sin(x)", "sin")
            info[cfg] = {"phi": phi, "period": m, "window": list(w), "paths": len(r.paths)}
            for a in r.alarms:
                if a.status == "violation":
                    V.oblige(False)
                    V.violation(a.kind, a.site, "%s in w_sin(%s) at %s" % (a.kind, a.witness, a.where), lib.rp(r, a.witness, a.kind))
                elif a.status == "inconclusive":
                    V.inconc("w_sin: %s at %s unresolved" % (a.kind, a.where))
            # cos(x) is sin(x + pi/2) with an exact offset on the domain, hence periodic with the same period
            rc = ctx.run("w_cos", [DOM])
            ro = ctx.run("w_sin_off", [DOM])
            lib.check_equiv(V, rc, ro, "cos(x) == sin(x + fixpidiv2)", site="cos")
        except Broken as e:
            V.broke("%s: %s" % (cfg, e))
    expl = ("DECIDED (exact periodicity): on every path of sin over |x| < 2^46 (|raw| < 2^62) an intermediate value r of that path is exhibited with "
            "(1) r congruent to x modulo 2*phi.v (remainder symbols replaced by the forms they reduce), (2) all r inside one window of "
            "at most 2*phi.v integers, (3) the path's returned form identical to the form returned by abstract re-execution of sin on the "
            "argument r. Hence sin(x) = G(x mod 2phi) and sin(x + k*2phi) == sin(x) bit for bit; no overflow on the domain. cos is shown equal "
            "to sin(x + fixpidiv2) by summary equivalence, so it inherits the period. NOT DECIDED: the accuracy bound 4 ulp + r^9/9! and "
            "|result| <= 1 (the true maximum error is within ~1 raw unit of the bound; interval evaluation of the polynomial loses more than "
            "that to the dependency problem, and shrinking cells to single inputs would be running the code).")
    return V.finish("other", expl, "./fx check C09 --tier %s" % tier, extra={"configs": configs, "reduction": info})
