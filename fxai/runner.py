"""Build the driver module for a configuration and analyse wrappers (in parallel)."""
import os
import re
import sys
import time
import random
import subprocess
import tempfile
import shutil
import multiprocessing as mp

from . import pipeline as P
from . import ir as IR
from .interp import Analyzer, Broken
from .state import Infeasible
from .witness import find_witness
from spec import entry as ENT

# wrappers that are expected not to compile (confirmed by hand, one reason each)
NOT_INSTANTIABLE = {
    **{"w_a2f_" + t: "unqualified arithmetic_to_fixed is ambiguous between the declarations in math.h and fixed_math.hpp; "
                     "reached through the constructor instead" for t in ENT.CARRIERS},
    **{"w_%seq_f_f64" % o: "fixed op= double does not compile (double result is not assignable to fixed_t)"
       for o in ("add", "sub", "mul", "div")},
    **{"w_%s_angle_f64" % f: "f_angle(double) does not compile (double * fixed is a double, no sin(double))"
       for f in ("sin", "cos", "tan")},
}


class Built:
    def __init__(self, config, mod, entries, skipped, text_len, build_s):
        self.config = config
        self.mod = mod
        self.entries = entries      # name -> Entry (instantiable ones)
        self.skipped = skipped      # name -> reason
        self.text_len = text_len
        self.build_s = build_s


def syntax_filter(ents, config, repo, extra_src=""):
    src = ENT.driver_source(ents, extra_src)
    tmp = tempfile.mkdtemp(prefix="fxsyn-")
    try:
        f = os.path.join(tmp, "d.cc")
        open(f, "w").write(src)
        p = subprocess.run(["clang++"] + P.CONFIGS[config] + ["-I" + os.path.join(repo, "fixed_lib/include"),
                                                              "-fsyntax-only", "-ferror-limit=0", "-Wno-everything", f],
                           stdout=subprocess.PIPE, stderr=subprocess.PIPE, text=True)
        bad = {}
        lines = src.split("\n")
        # split diagnostics into blocks, one per error; attribute each to the first driver line it mentions
        blocks = re.split(r"(?m)^(?=\S+:\d+:\d+: (?:fatal )?error: )", p.stderr)
        for blk in blocks:
            em = re.match(r"\S+:\d+:\d+: (?:fatal )?error: ([^\n]*)", blk)
            if not em:
                continue
            dm = re.search(r"d\.cc:(\d+):\d+:", blk)
            if not dm:
                bad.setdefault("?unattributed", em.group(1))
                continue
            ln = int(dm.group(1))
            mm = re.match(r"\s*\S+ (\w+)\(", lines[ln - 1])
            bad.setdefault(mm.group(1) if mm else "?line%d" % ln, em.group(1))
        if p.returncode != 0 and not bad:
            raise Broken("driver does not compile: " + p.stderr[:2000])
        return bad
    finally:
        shutil.rmtree(tmp, ignore_errors=True)


def build(config, repo=None, extra_entries=(), extra_src="", only=None, optional=()):
    """optional: names of wrappers that are allowed not to compile (an input form the library may simply not define)"""
    repo = repo or P.REPO
    t0 = time.time()
    ents = ENT.entries() + list(extra_entries)
    if only is not None:
        ents = [e for e in ents if e.name in only]
    bad = syntax_filter(ents, config, repo, extra_src)
    # a failing template specialisation is diagnosed once, at its first use: filter again until the rest is clean
    for _ in range(12):
        if not bad:
            break
        more = syntax_filter([e for e in ents if e.name not in bad], config, repo, extra_src)
        if not more:
            break
        bad.update(more)
    skipped = {}
    for name, err in bad.items():
        if name in NOT_INSTANTIABLE:
            skipped[name] = NOT_INSTANTIABLE[name]
        elif name in optional:
            skipped[name] = "does not compile: " + err[:160]
        else:
            raise Broken("ANALYSIS-BROKEN: wrapper %s no longer compiles against the tree (%s): "
                         "a public entry point it anchors has vanished or changed signature" % (name, err))
    good = [e for e in ents if e.name not in bad]
    text = P.build_ir(ENT.driver_source(good, extra_src), config, repo)
    mod = P.load_module(text)
    for e in good:
        if e.name not in mod.functions:
            raise Broken("wrapper %s missing from the IR" % e.name)
    ents_d = {e.name: e for e in good}
    ctl = ENT.Entry("c_control_overflow", ["i64", "i64"], "i64", "", "positive control", "control")
    if ctl.name in mod.functions:
        ents_d[ctl.name] = ctl
    return Built(config, mod, ents_d, skipped, len(text), time.time() - t0)


# ---------------------------------------------------------------- per wrapper analysis
class WAlarm:
    """picklable digest of an alarm"""

    def __init__(self, al, wrapper, config):
        self.wrapper = wrapper
        self.config = config
        self.kind = al.kind
        self.chain = al.chain
        self.line = al.line
        self.detail = al.detail
        self.site = al.site_key()
        self.where = al.where()
        self.box = {k: v for k, v in al.state.bounds.items() if isinstance(k, str) and re.fullmatch(r"p\d+", k)}
        self.fbox = {k: v for k, v in al.state.fb.items() if re.fullmatch(r"f\d+", k)}
        self.witness = None
        self.status = "alarm"

    def key(self):
        return (self.kind, self.site)


def default_boxes(ent):
    return [ENT.domain(k) for k in ent.params]


def split_boxes(boxes, depth):
    """alarm-driven input partitioning: sign/bit-length classes of wide integer parameters"""
    out = [[]]
    for b in boxes:
        if b[0] != "i" or b[2] - b[1] < 1 << 20:
            out = [o + [b] for o in out]
            continue
        lo, hi = b[1], b[2]
        cells = []
        step = 4 if depth == 1 else 1
        # negative classes
        edges = []
        k = 0
        while k < 64:
            edges.append(1 << k)
            k += step
        pts = sorted(set([lo, hi + 1, 0, 1] + [e for e in edges if lo < e <= hi] + [-e + 1 for e in edges if lo < -e + 1 <= hi]))
        for a, z in zip(pts, pts[1:]):
            if a <= z - 1:
                cells.append(("i", a, z - 1))
        out = [o + [c] for o in out for c in cells]
    return out


def analyze_entry(built, name, boxes=None, rnd=None, refine_depth=2, want_paths=False, opts=None):
    ent = built.entries[name]
    mod = built.mod
    rnd = rnd or random.Random(0)
    boxes = boxes or default_boxes(ent)
    an = Analyzer(mod, mod.functions[name])
    for k_, v_ in (opts or {}).items():
        setattr(an, k_, v_)
    if getattr(an, "summaries", False) and an.loop_heads:
        # loops verified as integer square roots are replaced by their summary (fxai.isqrt); all others are unrolled as usual
        from . import isqrt as _isq
        _isq.prepare(an)
    init = P.init_state(an.fn, boxes)
    if getattr(an, "track_mono", False):
        # direction of every SSA value in parameter 0 (fxai.interp.tag_mono); the other parameters are held fixed
        init.mono = {pn: (1 if k == 0 else 0) for k, (pn, ty) in enumerate(an.fn.params)}
    res = an.run(init)
    out_alarms = []
    stats = dict(res.stats)
    stats["paths"] = len(res.paths)
    stats["cells"] = 1
    stats["sites"] = len(an.trap_blocks) + sum(1 for b in an.fn.blocks.values() for i in b.insts if i.op == "load")
    pending = []
    seen_wit = {}
    by_line = {}
    for al in res.alarms:
        by_line.setdefault(al.line, []).append(al)
    tried = set()
    for al in res.alarms:
        w = WAlarm(al, name, built.config)
        out_alarms.append(w)
        if w.line in seen_wit:
            w.witness = seen_wit[w.line]
            w.status = "violation"
            continue
        # budget per IR line: the first few alarm states of a line get a full search
        n_tried = sum(1 for t in tried if t[0] == w.line)
        if n_tried < 4:
            tried.add((w.line, id(al)))
            wit, other = find_witness(an, al, rnd, 1500 if n_tried == 0 else 300)
            for ln, args in other.items():
                seen_wit.setdefault(ln, args)
            if wit is not None:
                w.witness = wit
                w.status = "violation"
                seen_wit[w.line] = wit
                continue
        pending.append((al, w))
    still = []
    for al, w in pending:
        if w.line in seen_wit:
            w.witness = seen_wit[w.line]
            w.status = "violation"
        else:
            still.append((al, w))
    pending = still
    # alarm-driven refinement for alarms without witness
    if pending and refine_depth > 0:
        resolved = refine(an, boxes, pending, rnd, stats)
        for al, w in pending:
            r = resolved.get(w.line)
            if r is None:
                w.status = "inconclusive"
            elif r[0] == "discharged":
                w.status = "discharged"
                w.detail = (w.detail + " [discharged by value partitioning on %s]" % r[1]).strip()
            else:
                w.status = "violation"
                w.witness = r[1]
    else:
        for al, w in pending:
            w.status = "inconclusive"
    return res if want_paths else None, out_alarms, stats, an


def dep_levels(an, al):
    """candidate symbol sets for value partitioning, taken from the backward slice of the faulting operation:
    first the 'first generation' symbols (opaque non-linear results computed directly from parameters),
    then the parameters themselves, then the remaining intermediate levels (nearest first)."""
    src = getattr(al, "src", None)
    st = al.state
    start = set(src.t) if src is not None else set()
    if not start:
        return []
    is_param = lambda s: isinstance(s, str) and re.fullmatch(r"p\d+", s) is not None
    levels = []
    seen = set()
    cur = start
    for _ in range(16):
        cur = {s for s in cur if s not in seen}
        if not cur:
            break
        seen |= cur
        levels.append(set(cur))
        nxt = set()
        for s in cur:
            nxt |= an.symdeps.get(s, set())
        cur = nxt

    def wide(ss):
        out = set()
        for s in ss:
            b = st.bounds.get(s)
            if b is not None and b[1] - b[0] > 4096:
                out.add(s)
        return out
    params = frozenset(wide(s for s in seen if is_param(s)))
    firstgen = set()
    for s in seen:
        if is_param(s):
            continue
        d = an.symdeps.get(s, set())
        # depends only on parameters and on narrow symbols
        if d and all(is_param(x) or x not in wide([x]) or all(is_param(y) for y in an.symdeps.get(x, ())) for x in d):
            if any(is_param(x) for x in d) or all(all(is_param(y) for y in an.symdeps.get(x, ())) for x in d):
                firstgen.add(s)
    out = []
    fg = frozenset(wide(firstgen))
    if fg and len(fg) <= 2:
        out.append(fg)
    if params and len(params) <= 2:
        out.append(params)
    for l in levels:
        w = frozenset(wide(l))
        if w and len(w) <= 2 and w not in out:
            out.append(w)
    return out


def refine(an, boxes, pending, rnd, stats):
    """value partitioning: an alarm line is discharged iff, for some partition of a symbol set in its
    backward slice, no cell raises it; it is a violation iff some cell yields a concrete witness."""
    result = {}
    lines = {}
    for al, w in pending:
        lines.setdefault(w.line, []).append(al)
    tried = {}
    good = set()
    budget_s = float(os.environ.get("FX_REFINE_BUDGET", "120"))
    t0 = time.time()
    leftovers = {}
    for ln, als in lines.items():
        if ln in result:
            continue
        # the symbols of different paths are alternatives (one path mints one of them), so the k-th candidate
        # sets of all alarm states of this line are merged into one partition request
        per = [dep_levels(an, al) for al in als]
        levels = []
        for k in range(max((len(x) for x in per), default=0)):
            u = frozenset().union(*[x[k] for x in per if len(x) > k])
            if u and u not in levels:
                levels.append(u)
        levels = levels[:5]
        # try first the candidate sets that already discharged another line
        levels.sort(key=lambda l: 0 if l in good else 1)
        for lv in levels:
            if time.time() - t0 > budget_s:
                break
            if lv not in tried:
                an.partition = {s: 1 for s in lv}
                try:
                    r = an.run(P.init_state(an.fn, boxes))
                except Broken:
                    r = None
                an.partition = {}
                stats["cells"] = stats.get("cells", 1) + 1
                if r is not None:
                    stats["steps"] = stats.get("steps", 0) + r.stats.get("steps", 0)
                tried[lv] = r
            r = tried[lv]
            if r is None:
                continue
            raised = {}
            for a in r.alarms:
                raised.setdefault(a.line, []).append(a)
            for ln2 in lines:
                if ln2 not in result and ln2 not in raised:
                    result[ln2] = ("discharged", "{" + ",".join(sorted(str(x)[:10] for x in lv)) + "}")
            if ln in result:
                good.add(lv)
                break
            leftovers[ln] = raised[ln]
    # lines that no partition discharged: look for a witness inside the smallest cells seen
    for ln in lines:
        if ln in result:
            continue
        got = None
        for a in (leftovers.get(ln) or [])[:12]:
            wit, _ = find_witness(an, a, rnd, 300)
            if wit is not None:
                got = wit
                break
        result[ln] = ("violation", got) if got is not None else None
    return result


# ---------------------------------------------------------------- parallel driver
_G = {}


def _init(config, repo, only):
    _G["built"] = build(config, repo, only=only)


def _work(args):
    name, seed = args
    b = _G["built"]
    t0 = time.time()
    try:
        _, alarms, stats, an = analyze_entry(b, name, rnd=random.Random(seed))
        err = None
    except Broken as e:
        alarms, stats, err = [], {}, str(e)
    except Infeasible:
        alarms, stats, err = [], {}, "no feasible path at all (precondition box empty?)"
    except RecursionError as e:
        alarms, stats, err = [], {}, "recursion: %s" % e
    stats["wall_s"] = time.time() - t0
    return name, alarms, stats, err


def run_all(config, repo=None, names=None, seed=0, procs=None):
    """analyse all (or the named) wrappers of a configuration; returns (built_meta, results)"""
    b = build(config, repo)
    names = names or sorted(b.entries)
    names = [n for n in names if n in b.entries]
    procs = procs or min(16, os.cpu_count() or 1)
    ctx = mp.get_context("fork")
    _G["built"] = b
    with ctx.Pool(procs) as pool:
        out = pool.map(_work, [(n, seed) for n in names], chunksize=1)
    return b, out
