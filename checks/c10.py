"""C10: tan is odd, periodic (x >= 0), NaN exactly at the pole, and within 2.5 ulp (1+tan^2) on |x| <= pi: all decided."""
from . import common, lib, reduce
from .lib import M, E, sym, FIN, ANYFX
from .c09 import const_of
from fxai.interp import Broken
from fxai.state import IntV

T62 = (1 << 62) - 1
EXTRA = [
    E("w_phi", [], "fx", "return phi.v;"),
    E("w_pidiv2", [], "fx", "return fixpidiv2.v;"),
    E("w_negtanneg", ["fx"], "fx", "return (-tan(-as_fixed(a))).v;"),
]


def run(tier, seed):
    V = common.Verdict("C10", tier, seed)
    configs = ["K17", "K20"] if tier == "quick" else ["K17", "K20"]
    info = {}
    for cfg in configs:
        try:
            ctx = lib.Ctx(cfg, EXTRA)
            phi = const_of(ctx, "w_phi")
            pole = const_of(ctx, "w_pidiv2")
            # oddness for every finite x
            rt = ctx.run("w_tan", [FIN])
            lib.check_equiv(V, rt, ctx.run("w_negtanneg", [FIN]), "tan(-x) == -tan(x)", site="tan")
            # period phi for x >= 0 (arguments below 2^62 raw)
            rp = ctx.run("w_tan", [("i", 0, T62)])
            w = reduce.check_reduction(V, rp, phi, "0 <= x < 2^62", "tan(x + k*phi) == tan(x) for x, k >= 0", "tan")
            info[cfg] = {"phi": phi, "pole": pole, "window": list(w), "paths": len(rp.paths)}
            # pole: NaN exactly when |x| mod phi == fixpidiv2
            x = sym(0)
            npole = 0
            for p in rp.paths:
                st = p.state
                lo, hi = lib.ret_rng(p)
                cands = [v for v in reduce.candidates(p, x, phi)]
                cands.reverse()
                # the narrowest intermediate congruent to x modulo phi (any representative will do: the pole set is
                # {v : v mod phi == pole}, wherever the reduction leaves its window)
                r = None
                for v in cands:
                    a, z = st.rng(v)
                    if r is None or z - a < r[1] - r[0]:
                        r = (a, z)

                def pole_in(a, z):
                    k = -(-(a - pole) // phi)      # smallest k with pole + k*phi >= a
                    return pole + k * phi <= z
                if lo == hi == M:
                    npole += 1
                    ok = r is not None and r[0] == r[1] and r[0] % phi == pole
                    why = "returns NaN but the reduced argument ranges over %s (pole %d)" % (r, pole)
                else:
                    ok = r is not None and not pole_in(r[0], r[1]) and hi < M and lo > -M
                    why = "non-NaN path: reduced argument range %s must exclude the pole %d and the result range [%d,%d] must exclude +-NaN" % (r, pole, lo, hi)
                V.oblige(ok)
                if not ok:
                    def bad(a, o):
                        isn = o[0] == "ret" and abs(o[1]) == M
                        return o[0] != "ret" or isn != (a[0] % phi == pole)
                    import random
                    args, out = lib.search(rp, st, bad, random.Random(seed))
                    if args is not None:
                        V.violation("tan is NaN exactly at the pole", "tan", "tan(%d) [%s]: %s; x mod phi = %d, pole = %d" % (
                            args[0], cfg, lib.out_str(out), args[0] % phi, pole), lib.rp(rp, args, "NaN exactly at the pole"))
                    else:
                        V.inconc("w_tan: %s on path %s" % (why, lib.describe_path(p)))
            if npole == 0:
                V.violation("tan is NaN exactly at the pole", "tan", "no path of tan returns NaN: the pole is not reported [%s]" % cfg,
                            lib.rp(rp, (pole,), "tan(fixpidiv2) is NaN"))
            if cfg == configs[0] or tier != "quick":
                accuracy(V, ctx, phi, pole, cfg)
            for r_ in (rt, rp):
                for a in r_.alarms:
                    if a.status == "violation":
                        V.oblige(False)
                        V.violation(a.kind, a.site, "%s in w_tan(%s) at %s" % (a.kind, a.witness, a.where), lib.rp(r_, a.witness, a.kind))
                    elif a.status == "inconclusive":
                        V.inconc("w_tan: %s at %s unresolved" % (a.kind, a.where))
        except Broken as e:
            V.broke("%s: %s" % (cfg, e))
    expl = ("Oddness: tan(x) and -tan(-x) are compared by summary equivalence over all finite x. Period: for 0 <= x < 2^62 every path "
            "exhibits an intermediate r congruent to x modulo phi.v, all r inside one window of at most phi.v integers, and a returned form equal "
            "to abstract re-execution of tan on r. Pole: a path returns the NaN constant exactly when its reduced argument is the singleton "
            "fixpidiv2.v; elsewhere the result interval excludes +-NaN and no division trap is reachable. Accuracy: [0, phi) is cut into cells "
            "(64 arguments, finer towards the pole); on each cell and path the idealised real expression of the returned form (including the "
            "reciprocal's quotient) is evaluated by interval automatic differentiation with a rounding budget and compared with the interval "
            "oracle for tan and 1+tan^2: |actual - 65536 tan x| <= 2.5 (1 + tan^2 x) on every cell; the 192 arguments next to the pole and "
            "x == phi are decided by constant propagation; negative arguments follow from the exact oddness. Every clause of C10 is decided.")
    return V.finish("proof", expl, "./fx check C10 --tier %s" % tier, extra={"configs": configs, "reduction": info})


# ------------------------------------------------------------------ accuracy |tan_lib(x) - tan x| <= 2.5 ulp (1 + tan^2 x)
def tan_truth(a, b, x0):
    from fractions import Fraction
    from . import realmath as R
    (sl, sh), (cl_, ch) = R.sin_cos_f(Fraction(a, 65536), Fraction(b, 65536))
    if cl_ <= 0 <= ch:
        raise ZeroDivisionError
    t = R.fdiv((sl, sh), (cl_, ch))
    sec2 = R.fadd(R.fi(1), R.fmul(t, t))            # derivative of 65536*tan(x/65536) wrt raw x
    (s0l, s0h), (c0l, c0h) = R.sin_cos_f(Fraction(x0, 65536), Fraction(x0, 65536))
    t0 = R.fdiv((s0l, s0h), (c0l, c0h))
    return (65536 * t0[0], 65536 * t0[1]), sec2


def tan_bound(a, b):
    from fractions import Fraction
    from . import realmath as R
    (sl, sh), (cl_, ch) = R.sin_cos_f(Fraction(a, 65536), Fraction(b, 65536))
    if cl_ <= 0 <= ch:
        return None                                   # the pole cell is handled separately
    t = R.fdiv((sl, sh), (cl_, ch))
    tmin2 = Fraction(0) if t[0] <= 0 <= t[1] else min(t[0] ** 2, t[1] ** 2)
    return Fraction(5, 2) * (1 + tmin2)


def accuracy(V, ctx, phi, pole, cfg):
    from fractions import Fraction
    from . import fxnum, realmath as R
    r = ctx.run("w_tan", [("i", 0, phi - 1)])

    def adapt(a):
        d = abs(a - pole)
        if d < 64:
            return 1
        if d < 1024:
            return 4
        if d < 8192:
            return 16
        return 64

    def point_ok(x, out):
        if out[0] != "ret":
            return False
        if x % phi == pole:
            return abs(out[1]) == M
        s, c = R.sin_cos(R.iv(Fraction(x, 65536)))
        t = R.div(s, c)
        tl, th = R.to_frac(t)
        bd = Fraction(5, 2) * (1 + min(tl ** 2, th ** 2))
        return 65536 * tl - bd <= out[1] <= 65536 * th + bd
    NEAR = 96

    def bound(a, b):
        if a >= pole - NEAR and b <= pole + NEAR:
            return None                       # decided argument by argument below
        return tan_bound(a, b)

    def adapt2(a):
        if a < pole - NEAR <= a + adapt(a) - 1:
            return pole - NEAR - a
        if a <= pole + NEAR < a + adapt(a) - 1 and a >= pole - NEAR:
            return pole + NEAR - a + 1
        return adapt(a)
    fails, info = fxnum.prove_cells(V, r, tan_truth, bound, "tan accuracy 2.5 ulp (1+tan^2)", "tan", adapt=adapt2, min_cells=3000)
    fxnum.triage_fails(V, r, fails, point_ok, "|tan(x) - tan x| <= 2.5 ulp (1 + tan^2 x)", "tan")
    # the 2*NEAR arguments next to the pole: constant propagation per argument (the reciprocal's divisor is tiny there)
    from fxai import pipeline as P
    nbad = 0
    for x in range(pole - NEAR, pole + NEAR + 1):
        if x == pole:
            continue
        rs = r.an.run(P.init_state(r.an.fn, [("i", x, x)]))
        vals = set(lib.ret_rng(q) for q in rs.paths)
        okx = False
        if len(vals) == 1 and not rs.alarms:
            lo, hi = next(iter(vals))
            okx = lo == hi and point_ok(x, ("ret", lo))
        V.oblige(okx)
        if not okx:
            nbad += 1
            out = r.conc((x,))
            if not point_ok(x, out):
                V.violation("|tan(x) - tan x| <= 2.5 ulp (1 + tan^2 x)", "tan", "tan(%d) [%s] = %s next to the pole violates the bound" % (x, cfg, lib.out_str(out)),
                            lib.rp(r, (x,), "tan accuracy"))
            else:
                V.inconc("w_tan [%s]: argument %d next to the pole not decided by constant propagation" % (cfg, x))
    # x == phi reduces to 0: its exact tangent is -(pi*65536 - phi) raw units
    rs = ctx.run("w_tan", [("i", phi, phi)])
    V.oblige(all(point_ok(phi, ("ret", lib.ret_rng(q)[0])) and lib.ret_rng(q)[0] == lib.ret_rng(q)[1] for q in rs.paths))
    info["near_pole_arguments"] = 2 * NEAR
    return info
