"""C01: a+b, a-b (and += / -=) are exact or NaN, however compiled.

Decided in full from the path summaries of the four kernels' wrappers:
  P-1 no reachable signed-overflow trap (the 'however it is compiled' clause, DESIGN 3.3)
  P-2 every non-NaN path returns the affine form a (+|-) b, unwrapped
  P-3 every path returning the NaN constant has a (+|-) b outside [lowest, max]
  P-4 no path can return INT64_MIN
  P-5 op= is summary-equivalent to op
"""
from . import common, lib, astlint
from .lib import M, FIN, E, sym, is_const, lin_rng, ret_rng
from fxai.state import IntV
from fxai.interp import Broken

LO, HI = -(M - 1), M - 1


def spec(op):
    S = sym(0).add(sym(1)) if op == "+" else sym(0).sub(sym(1))

    def accept(p):
        r = p.ret
        if not isinstance(r, IntV):
            return False, "return value is not an integer"
        lo, hi = lin_rng(p, S)
        if is_const(p, M):
            return (lo > HI), "returns +NaN but exact result range is [%d,%d]" % (lo, hi)
        if is_const(p, -M):
            return (hi < LO), "returns -NaN but exact result range is [%d,%d]" % (lo, hi)
        if r.lin.key() != S.key():
            return False, "returned form %s is not the exact result" % (r.lin,)
        rlo, rhi = ret_rng(p)
        if rlo < -M or rhi > M:
            return False, "result can leave [-NaN, NaN]: [%d,%d]" % (rlo, rhi)
        return True, ""

    def bad(args, out):
        a, b = args
        ex = a + b if op == "+" else a - b
        if out[0] != "ret":
            return True
        r = out[1]
        if LO <= ex <= HI:
            return r != ex
        return abs(r) != M
    return accept, bad


def run(tier, seed):
    V = common.Verdict("C01", tier, seed)
    configs = ["K17", "K20"] if tier == "quick" else ["K17", "K17A", "K20"]
    extra = []
    astlint.false_attr(V, "K17", only={"operator+=", "operator-=", "operator+", "operator-", "fixed_addition", "fixed_substract"})
    n = 0
    for cfg in configs:
        try:
            ctx = lib.Ctx(cfg, extra, only=None)
        except Broken as e:
            V.broke(str(e))
            continue
        for op, nm in (("+", "add"), ("-", "sub")):
            accept, bad = spec(op)
            runs = {}
            for w in ("w_%s_ff" % nm, "w_%seq_ff" % nm, "w_%sfn_ff" % nm):
                try:
                    r = ctx.run(w, [FIN, FIN])
                except Broken as e:
                    V.broke("%s/%s: %s" % (cfg, w, e))
                    continue
                runs[w] = r
                n += 1
                # P-1: trap reachability inside the finite domain
                for a in r.alarms:
                    if a.status == "violation":
                        V.oblige(False)
                        V.violation(a.kind, a.site, "%s in %s(%s) [%s] at %s: undefined behaviour inside the kernel, the overflow test after it "
                                    "may be removed by an optimiser" % (a.kind, w, ", ".join(map(repr, a.witness)), cfg, a.where),
                                    {"wrapper": w, "args": list(a.witness), "config": cfg, "expected": a.kind})
                V.oblige(True, r.stats.get("sites", 0) - len({a.line for a in r.alarms if a.status != "discharged"}))
                if len(r.paths) < 4:
                    V.broke("%s/%s: only %d paths (expected >= 4)" % (cfg, w, len(r.paths)))
                if not any(is_const(p, M) for p in r.paths) or not any(is_const(p, -M) for p in r.paths):
                    V.broke("%s/%s: no path returns +NaN / -NaN (NaN exits vanished)" % (cfg, w))
                lib.check_post(V, r, accept, bad, "exact-or-NaN(%s)" % op, site="fixed_%s" % ("addition" if op == "+" else "substract"))
            if len(runs) == 3:
                lib.check_equiv(V, runs["w_%seq_ff" % nm], runs["w_%s_ff" % nm], "a %s= b leaves a == a %s b" % (op, op))
                lib.check_equiv(V, runs["w_%sfn_ff" % nm], runs["w_%s_ff" % nm], "named function == operator %s" % op)
    expl = ("For operator+, operator-, +=, -= and fixed_addition/fixed_substract on fixed_t x fixed_t with both operands finite, every path "
            "of the inlined kernel is summarised as (input box, linear side constraints, returned linear form). Proved per path: a NaN "
            "constant is returned only when the exact integer result a(+|-)b lies outside [lowest,max]; otherwise the returned form IS "
            "a(+|-)b with no wrap (so every in-range result is exact), the result stays in [-NaN,NaN] (never INT64_MIN), and no signed "
            "overflow trap is reachable (hence the verdict holds at every optimisation level and inlining decision). op= and the named "
            "functions are shown equal to the operators by summary equivalence. All 2^128 operand pairs are covered by the path boxes.")
    return V.finish("proof", expl, "./fx check C01 --tier %s" % tier, extra={"wrappers": n, "configs": configs})
