"""C03: division is correctly truncated or NaN and never traps (decided in full)."""
from . import common, lib
from .lib import M, FIN, E, sym, is_const
from .c02 import report_alarms
from fxai.interp import Broken
from fxai.state import IntV
from fxai.lin import Lin
from spec import entry as ENT

T47 = 1 << 47


def quotient_ok(run, st, r, num, den):
    """is r the truncated quotient num/den (den != 0 on this path)?"""
    dlo, dhi = st.rng_lin_int(den)
    if dlo <= 0 <= dhi:
        return False, "divisor may be zero on a non-NaN path"
    if dlo == dhi:
        c = dlo
        a, z = st.rng_lin_int(r.lin.scale(c).sub(num))
        return (-(abs(c) - 1) <= a and z <= abs(c) - 1), "result*%d - dividend in [%d,%d]" % (c, a, z)
    sg = r.lin.single()
    if sg is None or sg[1] != 1 or r.lin.cn != 0:
        return False, "result %s is not a single quotient" % (r.lin,)
    d = run.an.symdef.get(sg[0])
    if d is None or d[0] != "div":
        return False, "result is not produced by a division"
    if d[1].key() != num.key():
        lo, hi = st.rng_lin_int(d[1].sub(num))
        if not (lo == hi == 0):
            return False, "dividend is %s, expected %s" % (d[1], num)
    if d[2].key() != den.key():
        lo, hi = st.rng_lin_int(d[2].sub(den))
        if not (lo == hi == 0):
            return False, "divisor is %s, expected %s" % (d[2], den)
    return True, ""


def accept_ff(run):
    a, b = sym(0), sym(1)
    N = a.scale(65536)

    def accept(p):
        st = p.state
        r = p.ret
        if not isinstance(r, IntV):
            return False, "non-integer result"
        blo, bhi = st.rng_lin_int(b)
        alo, ahi = st.rng_lin_int(a)
        if is_const(p, M):
            if blo == bhi == 0:
                return True, ""
            return (alo >= T47 or ahi <= -T47), "returns NaN for a non-zero divisor although |a| may be < 2^31: a in [%d,%d]" % (alo, ahi)
        if blo <= 0 <= bhi:
            return False, "non-NaN path on which the divisor may be 0"
        return quotient_ok(run, st, r, N, b)
    return accept


def tdiv(x, y):
    q = abs(x) // abs(y)
    return q if (x >= 0) == (y > 0) else -q


def bad_ff(a, o):
    x, y = a
    if o[0] != "ret":
        return True
    if y == 0:
        return abs(o[1]) != M
    if abs(o[1]) == M and tdiv(x * 65536, y) != o[1]:
        return abs(x) < T47
    return o[1] != tdiv(x * 65536, y)


def accept_scalar(run, t):
    N = ENT.BITS[t]
    a, p = sym(0), sym(1)

    def accept(pa):
        r = pa.ret
        if not isinstance(r, IntV):
            return False, "non-integer"
        regs = [([(p, 1, None)], p), ([(p, 0, 0)], None)]
        if t[0] == "i":
            regs.append(([(p, None, -1)], p))
        else:
            regs.append(([(p, None, -1)], p.addc(1 << N)))
        for cons, nl in regs:
            st = lib.feasible_with(pa.state, cons)
            if st is None:
                continue
            lo, hi = st.rng(r)
            if nl is None:
                if not (lo == hi == M):
                    return False, "n == 0 does not give NaN"
                continue
            if lo == hi == M:
                # NaN for a non-zero divisor is only correct when it is the exact quotient pattern
                return False, "returns NaN for a non-zero divisor"
            nlo, nhi = st.rng_lin_int(nl)
            if nlo > M:
                # divisor larger than every fixed magnitude: truncated quotient is 0
                if lo == hi == 0:
                    continue
                return False, "divisor above 2^63 must give 0"
            ok, why = quotient_ok(run, st, r, a, nl)
            if not ok:
                return False, why
        return True, ""
    return accept


def bad_scalar(t):
    N = ENT.BITS[t]

    def bad(a, o):
        x, n = a
        if t[0] == "u" and n < 0:
            n += 1 << N
        if o[0] != "ret":
            return True
        if n == 0:
            return abs(o[1]) != M
        return o[1] != tdiv(x, n)
    return bad


def run(tier, seed):
    V = common.Verdict("C03", tier, seed)
    configs = ["K17", "K20"] if tier == "quick" else ["K17", "K17A", "K20"]
    nw = 0
    for cfg in configs:
        try:
            ctx = lib.Ctx(cfg, [])
            runs = {}
            for w in ("w_div_ff", "w_diveq_ff", "w_divfn_ff"):
                r = ctx.run(w, [FIN, FIN])
                runs[w] = r
                nw += 1
                lib.check_post(V, r, accept_ff(r), bad_ff, "a/b: NaN for b==0, else truncated 2^16*a/b, NaN only for |a| >= 2^31", site="fixed_division")
                report_alarms(V, r, cfg)
            lib.check_equiv(V, runs["w_diveq_ff"], runs["w_div_ff"], "a /= b leaves a == a / b", site="operator/=")
            lib.check_equiv(V, runs["w_divfn_ff"], runs["w_div_ff"], "fixed_division == operator/", site="fixed_division")
            for t in ENT.INTS:
                for w in ("w_div_f_" + t, "w_diveq_f_" + t):
                    r = ctx.run(w, [FIN, ENT.domain(t)])
                    nw += 1
                    lib.check_post(V, r, accept_scalar(r, t), bad_scalar(t), "a/%s: exact truncated quotient for every non-zero divisor, NaN for 0" % t,
                                   site="fixed_division_by_scalar")
                    report_alarms(V, r, cfg)
        except Broken as e:
            V.broke("%s: %s" % (cfg, e))
    # the long long / unsigned long long spellings of the 64-bit operand are distinct types on LP64: same programs as int64_t / uint64_t
    from . import spell
    for cfg_ in (configs[:1] if tier == "quick" else configs):
        try:
            spell.check(V, cfg_, "div", "fixed_division")
        except Broken as e:
            V.broke("spellings %s: %s" % (cfg_, e))
    expl = ("fixed/fixed with finite operands: the box b == 0 returns the NaN constant; every other NaN-returning path has |a| >= 2^47 raw "
            "(|a| >= 2^31); every non-NaN path returns the value-numbered truncating quotient sdiv(N, b) whose dividend form is exactly 65536*a "
            "(no dividend bits dropped) and whose divisor form is b, hence |result - 2^16*a/b| < 1; no division trap (INT64_MIN / -1, /0) is "
            "reachable. fixed/integer for the 8 carriers and /=: n == 0 gives NaN, every other divisor value gives sdiv(a, n) with n the "
            "mathematical operand value (0 for a 64 bit unsigned divisor above 2^63).")
    expl = expl + ' The `long long` / `unsigned long long` spellings of a 64-bit integral operand (distinct types on LP64) are compared with the int64_t / uint64_t wrappers by summary equivalence; spellings the library does not compile for are listed in the evidence as not defined.'
    return V.finish("proof", expl, "./fx check C03 --tier %s" % tier, extra={"configs": configs, "wrappers": nw})
