"""C02: multiplication is correctly truncated or NaN (decided in full)."""
from . import common, lib
from .lib import M, FIN, E, sym, is_const, ret_rng
from fxai.interp import Broken, Analyzer
from fxai.state import IntV, Infeasible
from fxai.lin import Lin
from spec import entry as ENT

B63 = 1 << 63


def prod_lin(st, la, lb):
    """exact product a*b as a form on this path: linear when one factor is a constant, else the product symbol"""
    alo, ahi = st.rng_lin_int(la)
    blo, bhi = st.rng_lin_int(lb)
    if alo == ahi:
        return lb.scale(alo)
    if blo == bhi:
        return la.scale(blo)
    name, sg = Analyzer.prod_name(la, lb)
    if name not in st.bounds:
        return None
    return Lin.sym(name, sg)


def accept_ff(p):
    st = p.state
    r = p.ret
    if not isinstance(r, IntV):
        return False, "non-integer result"
    PI = prod_lin(st, sym(0), sym(1))
    if PI is None:
        return False, "the raw product a*b is not computed on this path"
    lo, hi = st.rng_lin_int(PI)
    if is_const(p, M):
        return (lo >= B63 or hi <= -B63), "returns NaN although the raw product may fit: range [%d,%d]" % (lo, hi)
    if lo < -(B63 - 1) or hi > B63 - 1:
        return False, "non-NaN path with raw product possibly outside 64 bits [%d,%d]" % (lo, hi)
    a, z = st.rng_lin_int(r.lin.scale(65536).sub(PI))
    return (-65535 <= a and z <= 0), "65536*result - a*b in [%d,%d], allowed [-65535,0]" % (a, z)


def bad_ff(a, o):
    pi = a[0] * a[1]
    if o[0] != "ret":
        return True
    r = o[1]
    if abs(r) == M:
        return abs(pi) < B63
    if abs(pi) > (M - 1) * 65536 + 65535:
        return True       # outside [lowest,max] and not NaN
    return not (-65535 <= r * 65536 - pi <= 0)


def n_lin(t):
    """mathematical value of an N-bit parameter: list of (region constraints, form)"""
    p = sym(1)
    if t[0] == "i":
        return [([], p)]
    N = ENT.BITS[t]
    return [([(p, 0, None)], p), ([(p, None, -1)], p.addc(1 << N))]


def accept_scalar(t, swap):
    def accept(p):
        st0 = p.state
        for cons, nl in n_lin(t):
            cons = [((sym(0) if swap else sym(1)) if l is sym(1) else l, lo, hi) for l, lo, hi in cons]
            if swap:
                nl2 = Lin(nl.cn, {("p0" if k == "p1" else k): v for k, v in nl.t.items()}, nl.d)
                al = sym(1)
            else:
                nl2 = nl
                al = sym(0)
            cons2 = []
            for l, lo, hi in cons:
                cons2.append((sym(0) if swap else sym(1), lo, hi))
            st = lib.feasible_with(st0, cons2)
            if st is None:
                continue
            r = p.ret
            if not isinstance(r, IntV):
                return False, "non-integer result"
            PI = prod_lin(st, al, nl2)
            rl, rh = st.rng(r)
            if PI is None:
                # product symbol absent (the comparison was decided without it): interval product of the factors
                a0, a1 = st.rng_lin_int(al)
                b0, b1 = st.rng_lin_int(nl2)
                cs = [a0 * b0, a0 * b1, a1 * b0, a1 * b1]
                if rl == rh == M and (min(cs) >= B63 - 1 or max(cs) <= -(B63 - 1)):
                    continue
                return False, "the product a*n is not computed on this path"
            lo, hi = st.rng_lin_int(PI)
            if rl == rh == M:
                if not (lo >= M or hi <= -B63):
                    if not (lo >= B63 - 1):
                        return False, "returns NaN although a*n may be representable: [%d,%d]" % (lo, hi)
                continue
            if lo < -(B63 - 1) or hi > B63 - 1:
                return False, "non-NaN path with a*n possibly outside 64 bits [%d,%d]" % (lo, hi)
            a, z = st.rng_lin_int(r.lin.sub(PI))
            if not (a == z == 0):
                return False, "result - a*n in [%d,%d]" % (a, z)
        return True, ""
    return accept


def bad_scalar(t, swap):
    N = ENT.BITS[t]

    def bad(a, o):
        x, n = (a[1], a[0]) if swap else (a[0], a[1])
        if t[0] == "u" and n < 0:
            n += 1 << N
        pi = x * n
        if o[0] != "ret":
            return True
        if -(M - 1) <= pi <= M - 1:
            return o[1] != pi
        return abs(o[1]) != M
    return bad


def run(tier, seed):
    V = common.Verdict("C02", tier, seed)
    configs = ["K17", "K20"] if tier == "quick" else ["K17", "K17A", "K20"]
    nw = 0
    for cfg in configs:
        try:
            ctx = lib.Ctx(cfg, [])
        except Broken as e:
            V.broke(str(e))
            continue
        try:
            runs = {}
            for w in ("w_mul_ff", "w_muleq_ff", "w_mulfn_ff"):
                r = ctx.run(w, [FIN, FIN])
                runs[w] = r
                nw += 1
                if not any(is_const(p, M) for p in r.paths):
                    V.violation("NaN exit is dead", "fixed_multiply", "%s: no feasible path returns NaN: overflow of fixed*fixed is never reported" % w)
                lib.check_post(V, r, accept_ff, bad_ff, "fixed*fixed within one ulp of the exact product or NaN (only when the raw product exceeds 64 bits)",
                               site="fixed_multiply")
                report_alarms(V, r, cfg)
            lib.check_equiv(V, runs["w_muleq_ff"], runs["w_mul_ff"], "a *= b leaves a == a * b", site="operator*=")
            lib.check_equiv(V, runs["w_mulfn_ff"], runs["w_mul_ff"], "fixed_multiply == operator*", site="fixed_multiply")
            for t in ENT.INTS:
                for w, swap in (("w_mul_f_" + t, False), ("w_mul_%s_f" % t, True), ("w_muleq_f_" + t, False)):
                    r = ctx.run(w, [lib.ENT.domain(t), FIN] if swap else [FIN, lib.ENT.domain(t)])
                    nw += 1
                    if not any(is_const(p, M) for p in r.paths) and ENT.BITS[t] > 8:
                        V.violation("NaN exit is dead", "fixed_multiply", "%s: no feasible path returns NaN" % w)
                    lib.check_post(V, r, accept_scalar(t, swap), bad_scalar(t, swap),
                                   "fixed*%s exact when in range, NaN when out of range" % t, site="fixed_multiply_scalar")
                    report_alarms(V, r, cfg)
        except Broken as e:
            V.broke("%s: %s" % (cfg, e))
    # the long long / unsigned long long spellings of the 64-bit operand are distinct types on LP64: same programs as int64_t / uint64_t
    from . import spell
    for cfg_ in (configs[:1] if tier == "quick" else configs):
        try:
            spell.check(V, cfg_, "mul", "fixed_multiply")
        except Broken as e:
            V.broke("spellings %s: %s" % (cfg_, e))
    expl = ("fixed*fixed (operator*, *=, fixed_multiply) with finite operands: on every non-NaN path the returned form q satisfies "
            "-65535 <= 65536*q - P <= 0 where P is the value-numbered exact product a*b (so |q - a*b/2^16| < 1 ulp, product unwrapped and within "
            "64 bits); every path returning the NaN constant has |P| >= 2^63 in its constraint store (so the result is never NaN when the raw "
            "product fits) and at least one such path is feasible (the NaN exit is live). fixed*integer for 8 carriers x 2 operand orders and *=: "
            "on non-NaN paths the returned form equals a*n with n the mathematical operand value (zero extension for unsigned carriers), NaN "
            "paths have |a*n| >= 2^63-1. No signed multiplication trap is reachable.")
    expl = expl + ' The `long long` / `unsigned long long` spellings of a 64-bit integral operand (distinct types on LP64) are compared with the int64_t / uint64_t wrappers by summary equivalence; spellings the library does not compile for are listed in the evidence as not defined.'
    return V.finish("proof", expl, "./fx check C02 --tier %s" % tier, extra={"configs": configs, "wrappers": nw})


def report_alarms(V, r, cfg):
    for a in r.alarms:
        if a.status == "violation":
            V.oblige(False)
            V.violation(a.kind, a.site, "%s in %s(%s) [%s] at %s" % (a.kind, r.name, ", ".join(map(repr, a.witness)), cfg, a.where),
                        {"wrapper": r.name, "args": list(a.witness), "config": cfg, "expected": a.kind})
