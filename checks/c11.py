"""C11: atan odd, within 5e-5 and within [-fixpidiv2, fixpidiv2]; atan2 axis values, quadrant signs, and within 8e-5 by composition
and near-monotonicity: every clause decided."""
from . import common, lib
from .lib import M, FIN, E, sym
from .c09 import const_of
from fxai.interp import Broken

T47 = (1 << 47) - 1
D = ("i", -T47, T47)
EXTRA = [
    E("w_phi", [], "fx", "return phi.v;"),
    E("w_pidiv2", [], "fx", "return fixpidiv2.v;"),
    E("w_negatanneg", ["fx"], "fx", "return (-atan(-as_fixed(a))).v;"),
    E("w_atanser", ["fx"], "fx", "return detail::atan<16>(a);"),
]


def run(tier, seed):
    V = common.Verdict("C11", tier, seed)
    configs = ["K17", "K20"]
    for cfg in configs:
        try:
            ctx = lib.Ctx(cfg, EXTRA, only={"w_atan", "w_atan2", "w_phi", "w_pidiv2", "w_negatanneg", "w_atanser"})
            phi = const_of(ctx, "w_phi")
            pd2 = const_of(ctx, "w_pidiv2")
            # oddness on the property's domain
            ra = ctx.run("w_atan", [D])
            lib.check_equiv(V, ra, ctx.run("w_negatanneg", [D]), "atan(-x) == -atan(x)", site="atan")
            for a in ra.alarms:
                if a.status == "violation":
                    V.oblige(False)
                    V.violation(a.kind, a.site, "%s in w_atan(%s) at %s" % (a.kind, a.witness, a.where), lib.rp(ra, a.witness, a.kind))
                elif a.status == "inconclusive":
                    V.inconc("w_atan: %s at %s unresolved" % (a.kind, a.where))
            if cfg == configs[0] or tier != "quick":
                atan_accuracy(V, ctx, cfg, pd2, fine=(tier != "quick"))
                ncomp = atan2_composition(V, ctx, cfg, phi)
                # numeric lemma for atan2: A + 1 + |phi - 65536 pi| <= 8e-5 * 65536
                from fractions import Fraction
                from . import realmath as R
                pil, pih = R.to_frac(R.pi())
                dphi = max(abs(phi - 65536 * pil), abs(phi - 65536 * pih))
                tot = Fraction(5, 100000) * 65536 + 1 + dphi
                V.oblige(tot <= Fraction(8, 100000) * 65536)
                V.cover.setdefault("atan2_composition", {})[cfg] = {"paths": ncomp, "budget_raw_units": float(tot), "allowed": 8e-5 * 65536}
            atan_range(V, ctx, cfg, pd2)
            # atan2(y, x): parameter 0 is y, parameter 1 is x
            y, x = sym(0), sym(1)
            boxes = [
                ("x==0,y>0", [("i", 1, T47), ("i", 0, 0)], ("const", pd2)),
                ("x==0,y<0", [("i", -T47, -1), ("i", 0, 0)], ("const", -pd2)),
                ("x==0,y==0", [("i", 0, 0), ("i", 0, 0)], ("const", M)),
                ("y==0,x>0", [("i", 0, 0), ("i", 1, T47)], ("const", 0)),
                ("y==0,x<0", [("i", 0, 0), ("i", -T47, -1)], ("const", phi)),
                ("y>0,x>0", [("i", 1, T47), ("i", 1, T47)], ("range", 0, M - 1)),
                ("y>0,x<0", [("i", 1, T47), ("i", -T47, -1)], ("range", 0, M - 1)),
                ("y<0,x>0", [("i", -T47, -1), ("i", 1, T47)], ("range", -(M - 1), 0)),
                ("y<0,x<0", [("i", -T47, -1), ("i", -T47, -1)], ("range", -(M - 1), 0)),
            ]

            def bad(a, o):
                yy, xx = a
                if o[0] != "ret":
                    return True
                r = o[1]
                if xx == 0:
                    return r != (pd2 if yy > 0 else (-pd2 if yy < 0 else M))
                if yy == 0:
                    return r != (0 if xx > 0 else phi)
                if abs(r) == M:
                    return True
                return (yy > 0 and r < 0) or (yy < 0 and r > 0)
            # the quotient y/x is partitioned into sign/bit-length classes so that (q-c)/(1+q*c) is evaluated precisely
            ctxp = lib.Ctx(cfg, EXTRA, only={"w_atan2"}, partition_ops=("sdiv",))
            for nm, bx, exp in boxes:
                r = ctxp.run("w_atan2", bx)
                lib.check_regions(V, r, [(nm, [], exp)], bad, "atan2 axis values and quadrant signs", site="atan2")
                for a in r.alarms:
                    if a.status == "violation":
                        V.oblige(False)
                        V.violation(a.kind, a.site, "%s in w_atan2(%s) at %s" % (a.kind, a.witness, a.where), lib.rp(r, a.witness, a.kind))
        except Broken as e:
            V.broke("%s: %s" % (cfg, e))
    expl = ("DECIDED: atan(-x) == -atan(x) by summary equivalence. atan accuracy: [0, 2^63) is cut into cells of geometrically growing width; "
            "on each cell and path (all five argument segments, including the quotient (x-c)/(1+x*c)) the idealised real expression of the "
            "returned form is evaluated by interval automatic differentiation with a rounding budget and compared with the interval oracle for "
            "atan and 1/(1+x^2): |atan_lib(x) - 65536 atan x| <= 5e-5*65536 on every cell; the constant tail x >= 2^24 is compared with "
            "atan(2^24) and pi/2. atan2: x == 0 gives exactly +-fixpidiv2, (0,0) NaN, y == 0 gives 0 / phi; in every open quadrant the result "
            "has the sign of y; every path with x != 0 returns atan_lib(q) + c with q the value-numbered truncated quotient 65536*y/x and c in "
            "{0, +phi, -phi} by quadrant (abstract re-execution of atan on the quotient symbol), hence |atan2_lib - angle| <= 5e-5*65536 + 1 "
            "(truncation of q, atan is 1-Lipschitz) + |phi - 65536 pi| < 8e-5*65536. |atan(x)| <= fixpidiv2: every non-constant path returns "
            "atanc + S(q) with S the series detail::atan<16> (abstract re-execution on the quotient symbol), 0 <= q <= Q from the linear forms of "
            "numerator and denominator (N - (Q+1) D < 0 over the path state), and atanc + S(t) lies in [0, fixpidiv2] for every integer t <= Q "
            "(interval evaluation on bisected cells of t, down to constant propagation); negative x by oddness. x <= y => atan(x) <= atan(y) + 2: from the accuracy cells, "
            "for x in cell i and y in a later cell j, atan(x) - atan(y) <= [v(b_i) + E_i + s_i] - [v(a_j) - E_j - s_j] with exact rational point "
            "values of the idealised expressions at the cell ends, rounding budgets E and s the possible decrease inside a cell from the "
            "derivative enclosure; the 32 arguments at either end of every segment enter with their exact results (constant propagation); "
            "the bound stays below 3, hence <= 2 for integers; negative arguments by oddness and atan(x) >= 0 for x >= 0. The accuracy and "
            "monotonicity cells are computed for the first configuration in the quick tier (C08 proves the c++17 and c++20 summaries equal) and "
            "for both in the thorough tier. Every clause of C11 is decided.")
    return V.finish("proof", expl, "./fx check C11 --tier %s" % tier, extra={"configs": configs})


def re_cell(text):
    import re
    m = re.findall(r"\[(\d+),(\d+)\]", text)
    if not m:
        return None
    if len(m) == 1:
        return (int(m[0][0]), int(m[0][1]), int(m[0][0]), int(m[0][1]))
    return (int(m[0][0]), int(m[0][1]), int(m[1][0]), int(m[1][1]))


# ------------------------------------------------------------------ atan accuracy, cell by cell
def atan_truth(a, b, x0):
    from fractions import Fraction
    from . import realmath as R
    t0 = R.atan_iv(R.iv(Fraction(x0, 65536))) if x0 != 0 else (0, 0)
    tl, th = R.to_frac(t0)
    xa, xb = Fraction(a, 65536), Fraction(b, 65536)
    # derivative of 65536*atan(x/65536) wrt raw x is 1/(1+x^2), decreasing in |x| (cells do not straddle 0 except [0,..])
    lo2 = min(xa * xa, xb * xb) if xa * xb > 0 else Fraction(0)
    hi2 = max(xa * xa, xb * xb)
    return (65536 * tl, 65536 * th), (1 / (1 + hi2), 1 / (1 + lo2))


def atan_accuracy(V, ctx, cfg, pd2, fine=False):
    from fractions import Fraction
    from . import fxnum, realmath as R
    TOP = (1 << 63) - 2
    r = ctx.run("w_atan", [("i", 0, TOP)])
    A = Fraction(5, 100000) * 65536          # 5e-5 in raw units

    def adapt(a):
        # relative cell width 2^-8 (2^-9 in the flat tail and in the thorough tier): the possible decrease of the idealised value
        # inside a cell, which the near-monotonicity bound pays for, shrinks with the square of the relative width
        return max(64, a >> (9 if fine or a >= (1 << 18) else 8))

    def bound(a, b):
        return A

    def point_ok(x, out):
        if out[0] != "ret":
            return False
        t = R.atan_iv(R.iv(Fraction(x, 65536))) if x else (0, 0)
        tl, th = R.to_frac(t)
        return 65536 * tl - A <= out[1] <= 65536 * th + A
    # paths with a constant result (huge arguments): the truth is within [atan(lo), pi/2)
    consts = []
    work_box_hi = 0
    for p in r.paths:
        lo, hi = p.state.bounds["p0"]
        rl, rh = lib.ret_rng(p)
        if rl == rh and hi - lo > 1 << 30:
            t = R.atan_iv(R.iv(Fraction(lo, 65536)))
            tl, th = R.to_frac(t)
            pil, pih = R.to_frac(R.pi())
            ok = abs(rl - 65536 * tl) <= A and abs(rl - 65536 * pih / 2) <= A
            V.oblige(ok)
            consts.append((lo, hi, rl, ok))
            if not ok:
                # the box of a path may be wider than its domain: the end point is a witness only if it really returns the constant
                wit = next((x_ for x_ in (lo, hi) if r.conc((x_,)) == ("ret", rl) and not point_ok(x_, ("ret", rl))), None)
                if wit is not None:
                    V.violation("|atan(x) - atan x| <= 5e-5", "atan", "atan(%d) = %d (constant on a path with box [%d,%d]) but 65536*atan(%d) = %.3f" % (
                        wit, rl, lo, hi, wit, float(65536 * R.to_frac(R.atan_iv(R.iv(Fraction(wit, 65536))))[0])), lib.rp(r, (wit,), "atan accuracy"))
                else:
                    V.inconc("w_atan [%s]: constant %d on a path with box [%d,%d] is not shown within 5e-5 and neither end point is a counter-example" % (
                        cfg, rl, lo, hi))
        else:
            work_box_hi = max(work_box_hi, hi)
    acc = [None, None]
    cells = []
    # the K arguments at either end of every segment are single-argument cells: their results are obtained exactly by constant
    # propagation, so the near-monotonicity bound across a segment boundary does not pay the rounding budget twice
    K = 32
    ends_ = sorted(set(e for p in r.paths for e in p.state.bounds["p0"] if e <= work_box_hi))

    def adapt_k(a):
        w = adapt(a)
        for e in ends_:
            if abs(a - e) <= K:
                return 1
            if a < e - K <= a + w - 1:
                return e - K - a
        return w
    fails, info = fxnum.prove_cells(V, r, atan_truth, bound, "atan accuracy 5e-5", "atan", box=(0, work_box_hi), adapt=adapt_k, min_cells=2000,
                                    rng_acc=acc, collect=cells)
    from fxai import pipeline as P
    exact = {}
    for c_ in cells:
        if c_["a"] == c_["b"] and c_["a"] not in exact:
            rs = r.an.run(P.init_state(r.an.fn, [("i", c_["a"], c_["a"])]))
            vals = set(lib.ret_rng(q) for q in rs.paths)
            if len(vals) == 1 and not rs.alarms:
                lo_, hi_ = next(iter(vals))
                if lo_ == hi_:
                    exact[c_["a"]] = lo_
    info["exact_arguments_at_segment_ends"] = len(exact)
    info["result_enclosure"] = [float(acc[0]), float(acc[1])] if acc[0] is not None else None
    # x <= y  =>  atan(x) <= atan(y) + 2 ulp: from the same cells (idealised value monotone inside a cell up to the derivative
    # enclosure, exact point values at the cell ends, two-sided rounding budget)
    try:
        w = fxnum.near_monotone(cells, [(c[0], c[1], c[2]) for c in consts], 2, exact)
        info["near_monotone"] = {"worst_bound_on_atan(x)-atan(y)": float(w[0]), "at": w[1], "needed": "< 3"}
        ok = w[0] < 3
        V.oblige(ok)
        if not ok:
            import random
            rnd = random.Random(V.seed)
            m_ = re_cell(w[1])
            hit = None
            if m_:
                xs = sorted(set([m_[0], m_[1]] + [rnd.randint(m_[0], m_[1]) for _ in range(400)]))
                ys = sorted(set([m_[2], m_[3]] + [rnd.randint(m_[2], m_[3]) for _ in range(400)]))
                vx = [(x, r.conc((x,))) for x in xs]
                vy = [(y, r.conc((y,))) for y in ys]
                for x, ox in vx:
                    for y, oy in vy:
                        if x <= y and ox[0] == "ret" and oy[0] == "ret" and ox[1] > oy[1] + 2:
                            hit = (x, y, ox[1], oy[1])
                            break
                    if hit:
                        break
            if hit:
                V.violation("x <= y => atan(x) <= atan(y) + 2 ulp", "atan", "atan(%d) = %d but atan(%d) = %d [%s]" % (hit[0], hit[2], hit[1], hit[3], cfg),
                            lib.rp(r, (hit[0],), "atan near-monotone: compare with atan(%d)" % hit[1]))
            else:
                V.inconc("atan near-monotonicity [%s]: bound %.3f on atan(x) - atan(y) for %s, needed < 3; no violating pair found" % (cfg, float(w[0]), w[1]))
    except fxnum.Unsupported as e:
        V.inconc("atan near-monotonicity [%s]: %s" % (cfg, e))
    fxnum.triage_fails(V, r, fails, point_ok, "|atan(x) - atan x| <= 5e-5", "atan")
    info["constant_tail"] = [[c[0], c[1], c[2]] for c in consts]
    return info


def atan2_composition(V, ctx, cfg, phi):
    """every path of atan2 with x != 0 returns atan_lib(q) + c with q the truncated quotient 65536*y/x and c in {0, +phi, -phi} by
    quadrant: decided by abstract re-execution of atan on the quotient symbol of the path"""
    from fxai.lin import Lin
    from fxai import pipeline as P
    from fxai.interp import Broken
    from fxai.state import Infeasible
    y, x = sym(0), sym(1)
    ratan = ctx.run("w_atan", [("i", -(M - 1), M - 1)])
    quads = [("x>0", [("i", -T47, T47), ("i", 1, T47)], 0), ("x<0,y>=0", [("i", 0, T47), ("i", -T47, -1)], phi),
             ("x<0,y<0", [("i", -T47, -1), ("i", -T47, -1)], -phi)]
    n = 0
    for nm, bx, c in quads:
        r = ctx.run("w_atan2", bx)
        for p in r.paths:
            st = p.state
            # the quotient symbol of this path: sdiv(65536*y, x)
            q = None
            for s_ in st.bounds:
                d = r.an.symdef.get(s_)
                if d is not None and d[0] == "div" and d[1].key() == y.scale(65536).key() and d[2].key() == x.key():
                    q = Lin.sym(s_)
            if q is None:
                # constant-folded quotient (e.g. y == 0): take any 64 bit value whose form is a quotient of the parameters
                if lib.pbox(st)["p0"] == (0, 0):
                    q = Lin.const(0)
            ok = False
            why = "no quotient symbol sdiv(65536*y, x) on this path"
            if q is not None:
                try:
                    init = P.init_state_from(ratan.an.fn, st, {0: q})
                    res = ratan.an.run(init)
                    same = bool(res.paths) and not res.alarms
                    for z in res.paths:
                        s2 = lib.join_states(st, z.state)
                        if s2 is None:
                            continue
                        lo, hi = s2.rng_lin_int(p.ret.lin.sub(z.ret.lin))
                        if not (lo == hi == c):
                            same = False
                            why = "atan2 - atan(q) ranges over [%d,%d], expected the constant %d" % (lo, hi, c)
                            break
                    ok = same
                except (Broken, Infeasible) as e:
                    why = "re-execution of atan on the quotient failed: %s" % e
            V.oblige(ok)
            n += 1
            if not ok:
                import random

                def bad(a, o):
                    yy, xx = a
                    if xx == 0 or o[0] != "ret":
                        return False
                    qq = abs(yy * 65536) // abs(xx)
                    if (yy < 0) != (xx < 0):
                        qq = -qq
                    o2 = ratan.conc((qq,))
                    cc = 0 if xx > 0 else (phi if yy >= 0 else -phi)
                    return o2[0] != "ret" or o[1] != o2[1] + cc
                args, out = lib.search(r, st, bad, random.Random(V.seed))
                if args is not None:
                    V.violation("atan2(y,x) == atan(y/x) + quadrant offset", "atan2", "atan2(%d, %d) [%s]: %s is not atan(trunc(65536*y/x)) %+d" % (
                        args[0], args[1], cfg, lib.out_str(out), c), lib.rp(r, args, "atan2 composition"))
                else:
                    V.inconc("w_atan2 [%s] region %s: %s on path %s" % (cfg, nm, why, lib.describe_path(p)))
    return n


# ------------------------------------------------------------------ |atan(x)| <= fixpidiv2
def atan_range(V, ctx, cfg, pd2):
    """0 <= atan(x) <= fixpidiv2 for every x >= 0 (x < 0 follows from the proved oddness):
    (1) every non-constant path returns atanc + S(q) with S = detail::atan<16> (the series) and q either x itself or the
        quotient symbol div_(x - c, 1 + x*c) of the path: decided by abstract re-execution of S on q;
    (2) 0 <= q <= Q on the path: N - (Q+1)*D < 0 and N >= 0 over the path state (N, D the linear forms of numerator and denominator);
    (3) atanc + S(t) in [0, fixpidiv2] for every integer t in [0, Q]: interval evaluation of S on cells of t, bisected down to
        single values (constant propagation) where the interval is not enough."""
    from fxai.lin import Lin
    from fxai import pipeline as P
    from fxai.state import Infeasible
    TOP = (1 << 63) - 2
    r = ctx.run("w_atan", [("i", 0, TOP)])
    rs0 = ctx.run("w_atanser", [("i", 0, 1 << 20)])
    info = {"segments": []}
    cache = {}

    def series_rng(a, b):
        """engine range of S over t in [a, b]; None if an alarm is raised"""
        if (a, b) not in cache:
            rr = ctx.run("w_atanser", [("i", a, b)])
            if rr.alarms or not rr.paths:
                cache[(a, b)] = None
            else:
                rg = [lib.ret_rng(z) for z in rr.paths]
                cache[(a, b)] = (min(g[0] for g in rg), max(g[1] for g in rg))
        return cache[(a, b)]
    if len(r.paths) < 5:
        V.broke("atan range (%s): only %d paths of w_atan" % (cfg, len(r.paths)))
    for p in r.paths:
        st = p.state
        lo, hi = st.bounds["p0"]
        rl, rh = lib.ret_rng(p)
        if rl == rh:
            ok = 0 <= rl <= pd2
            V.oblige(ok)
            info["segments"].append({"x": [lo, hi], "constant": rl})
            if not ok:
                wit = next((x_ for x_ in (lo, hi, (lo + hi) // 2) if r.conc((x_,)) == ("ret", rl)), None)
                if wit is not None:
                    V.violation("|atan(x)| <= fixpidiv2", "atan", "atan(%d) = %d (constant on a path with box [%d,%d]), outside [0, fixpidiv2 = %d]" % (
                        wit, rl, lo, hi, pd2), lib.rp(r, (wit,), "atan range"))
                else:
                    V.inconc("atan range [%s]: constant %d on a path with box [%d,%d] and no argument found that returns it" % (cfg, rl, lo, hi))
            continue
        if 0 <= rl and rh <= pd2:
            # the interval of the returned form already lies inside [0, fixpidiv2]: nothing more to show for this path
            V.oblige(True)
            info["segments"].append({"x": [lo, hi], "result_interval": [rl, rh]})
            continue
        q = None
        N = Dn = None
        for s_ in st.bounds:
            d = r.an.symdef.get(s_)
            if d is not None and d[0] == "div":
                q, N, Dn = Lin.sym(s_), d[1], d[2]
        if q is None:
            q = sym(0)
            Q = hi
            qlo_ok = lo >= 0
        else:
            # (2) bound the quotient from the linear forms of numerator and denominator
            dl, dh = st.rng_lin_int(Dn)
            nl, nh = st.rng_lin_int(N)
            qlo_ok = dl > 0 and nl >= 0
            Q = None
            if dl > 0:
                a, b = 0, 1 << 40
                if st.rng_lin_int(N.sub(Dn.scale(b + 1)))[1] < 0:
                    while a < b:
                        m = (a + b) // 2
                        if st.rng_lin_int(N.sub(Dn.scale(m + 1)))[1] < 0:
                            b = m
                        else:
                            a = m + 1
                    Q = a
        seg = {"x": [lo, hi], "q_max": Q}
        info["segments"].append(seg)
        if Q is None or not qlo_ok:
            V.oblige(False)
            V.inconc("atan range [%s]: quotient of the segment x in [%d,%d] not bounded" % (cfg, lo, hi))
            continue
        # (1) ret == atanc + S(q)
        ok = False
        why = ""
        atanc = None
        try:
            st2 = st.fork()
            init = P.init_state_from(rs0.an.fn, st2, {0: q})
            res = rs0.an.run(init)
            ok = bool(res.paths) and not res.alarms
            for z in res.paths:
                s2 = lib.join_states(st, z.state)
                if s2 is None:
                    continue
                l2, h2 = s2.rng_lin_int(p.ret.lin.sub(z.ret.lin))
                if l2 != h2 or (atanc is not None and atanc != l2):
                    ok = False
                    why = "atan(x) - series(q) ranges over [%s,%s]" % (l2, h2)
                    break
                atanc = l2
            if res.alarms:
                why = "series re-execution raises %s" % res.alarms[0].kind
        except (Broken, Infeasible) as e:
            why = "re-execution of the series on the quotient failed: %s" % e
        V.oblige(ok)
        if not ok or atanc is None:
            V.inconc("atan range [%s]: segment x in [%d,%d] is not constant + series(q): %s" % (cfg, lo, hi, why))
            continue
        seg["atanc"] = atanc
        # (3) atanc + S(t) within [0, pd2] for t in [0, Q]
        work = [(0, Q)]
        ncell = nsingle = 0
        top = None
        bad = None
        while work:
            a, b = work.pop()
            g = series_rng(a, b)
            ncell += 1
            if g is not None and 0 <= atanc + g[0] and atanc + g[1] <= pd2:
                top = atanc + g[1] if top is None else max(top, atanc + g[1])
                continue
            if a == b:
                nsingle += 1
                bad = (a, g)
                break
            m = (a + b) // 2
            work.append((a, m))
            work.append((m + 1, b))
            if ncell > 60000:
                bad = (a, "budget")
                break
        seg.update({"cells": ncell, "max_result_bound": top})
        V.oblige(bad is None)
        if bad is not None:
            t = bad[0]
            # a concrete x of this segment whose quotient is t: search the segment
            import random

            def isbad(args, o):
                return o[0] == "ret" and not (0 <= o[1] <= pd2)
            args, out = lib.search(r, st, isbad, random.Random(V.seed))
            if args is not None:
                V.violation("|atan(x)| <= fixpidiv2", "atan", "atan(%d) [%s] %s, outside [0, fixpidiv2 = %d]" % (args[0], cfg, lib.out_str(out), pd2),
                            lib.rp(r, args, "atan range"))
            else:
                V.inconc("atan range [%s]: segment x in [%d,%d]: %d + series(%d) = %s not shown within [0,%d] and no input found" % (
                    cfg, lo, hi, atanc, t, bad[1], pd2))
    V.cover.setdefault("atan_range", {})[cfg] = info
    return info
