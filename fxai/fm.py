"""Fourier-Motzkin elimination over the rationals for the tiny systems met in path states
(a handful of symbols and two-sided constraints).  Sound for infeasibility and for bounds
(the integer hull is inside the rational polyhedron)."""
from math import gcd


def _norm(row):
    coefs, b = row
    g = 0
    for v in coefs.values():
        g = gcd(g, abs(v))
    if g > 1:
        # sum c x <= b with integer x: divide and floor the bound (integer tightening)
        coefs = {k: v // g for k, v in coefs.items()}
        b = b // g
    return coefs, b


def eliminate(rows, var, limit=4000):
    pos, neg, rest = [], [], []
    for coefs, b in rows:
        c = coefs.get(var, 0)
        if c > 0:
            pos.append((coefs, b, c))
        elif c < 0:
            neg.append((coefs, b, -c))
        else:
            rest.append((coefs, b))
    if len(pos) * len(neg) + len(rest) > limit:
        return None
    for pc, pb, pk in pos:
        for nc, nb, nk in neg:
            # nk*(pos) + pk*(neg)
            coefs = {}
            for k, v in pc.items():
                if k != var:
                    coefs[k] = coefs.get(k, 0) + v * nk
            for k, v in nc.items():
                if k != var:
                    coefs[k] = coefs.get(k, 0) + v * pk
            coefs = {k: v for k, v in coefs.items() if v != 0}
            b = pb * nk + nb * pk
            if not coefs:
                if b < 0:
                    return False
                continue
            rest.append(_norm((coefs, b)))
    # drop duplicates / dominated rows with identical coefficients
    best = {}
    for coefs, b in rest:
        key = tuple(sorted(coefs.items(), key=lambda x: str(x[0])))
        if key not in best or b < best[key][1]:
            best[key] = (coefs, b)
    return list(best.values())


def rows_of(bounds, cons, syms):
    """rows 'sum c x <= b' for the box of the given symbols and the constraint store entries among them"""
    rows = []
    for s in syms:
        lo, hi = bounds[s]
        rows.append(({s: 1}, hi))
        rows.append(({s: -1}, -lo))
    for nk, (lo, hi) in cons.items():
        d = dict(nk)
        if hi is not None:
            rows.append((dict(d), hi))
        if lo is not None:
            rows.append(({k: -v for k, v in d.items()}, -lo))
    return rows


def feasible(bounds, cons):
    """False only if the system is infeasible over the rationals (with integer tightening of single rows)"""
    if len(cons) < 2:
        return True
    syms = set()
    for nk in cons:
        for s, _ in nk:
            syms.add(s)
    if len(syms) > 8:
        return True
    rows = rows_of(bounds, cons, syms)
    for v in sorted(syms, key=str):
        rows = eliminate(rows, v)
        if rows is False:
            return False
        if rows is None:
            return True
    for coefs, b in rows:
        if not coefs and b < 0:
            return False
    return True


def bounds_of(bounds, cons, lin_t, extra_syms=()):
    """(lo, hi) bounds (None = unbounded/unknown) of the integer form sum k*s (dict) under the system; or 'infeasible'"""
    syms = set(lin_t)
    for nk in cons:
        for s, _ in nk:
            syms.add(s)
    if len(syms) > 8:
        return None, None
    rows = rows_of(bounds, cons, syms)
    Z = "__z__"
    # z - L <= 0 and L - z <= 0
    r1 = {Z: 1}
    r2 = {Z: -1}
    for s, k in lin_t.items():
        r1[s] = -k
        r2[s] = k
    rows.append((r1, 0))
    rows.append((r2, 0))
    for v in sorted(syms, key=str):
        rows = eliminate(rows, v)
        if rows is False:
            return "infeasible"
        if rows is None:
            return None, None
    lo = hi = None
    for coefs, b in rows:
        c = coefs.get(Z, 0)
        if c > 0:
            v = b // c
            hi = v if hi is None else min(hi, v)
        elif c < 0:
            v = -((b) // (-c))
            # -|c| z <= b  => z >= -b/|c|  => ceil(-b/|c|)
            v = -(b // (-c))
            lo = v if lo is None else max(lo, v)
        elif b < 0:
            return "infeasible"
    return lo, hi
