#!/usr/bin/env python3
"""Regenerate MANIFEST.json from the table below (kept in one place so that claimed / not_applicable stay consistent)."""
import json
import os
ROOT = os.path.dirname(os.path.dirname(os.path.abspath(__file__)))
NOTE = ("trusted: clang 14 front end and UBSan check generation, LLVM always-inline/inline/sroa, fxai IR parser and transfer functions "
        "(cross-checked by selftest mutants/benign variants and witness replay), IEEE-754 binary64/32 round-to-nearest and a correctly "
        "rounded sqrt, x86-64 two's-complement conventions")
AI = "static analysis: abstract interpretation (linear forms over value-numbered symbols, intervals, trace partitioning) of fully inlined UBSan-instrumented LLVM IR"
CHECKS = {
 "C01": ("proof", AI + "; post-conditions on path summaries; summary equivalence", "all 2^128 finite operand pairs of + - += -=: exact-or-NaN, no UB, never INT64_MIN", "5 (C01)"),
 "C02": ("proof", AI + "; product symbols with quotient rule; post-conditions on path summaries", "fixed*fixed within 1 ulp or NaN (only when raw product exceeds 64 bits); fixed*integer exact or NaN; NaN exit live; no UB", "5 (C02)"),
 "C03": ("proof", AI + "; value-numbered quotient terms; post-conditions on path summaries", "b==0 gives NaN, otherwise truncated quotient with unwrapped dividend, NaN only for |a|>=2^31; fixed/integer exact for every non-zero divisor; no division trap", "5 (C03)"),
 "C04": ("proof", AI + "; region checks on returned forms", "all 8 integral carriers, both directions and the round trip, whole type ranges", "5 (C04)"),
 "C05": ("other", AI + " with exact rational forms for floating values; shape lemma on value-numbered float expressions", "NaN/range clause for float and double, fixed->double exact, fixed->float correctly rounded by shape, fixed->double->fixed identity on |x| < 2^31-1, and the half-ulp / ties-away rounding of floating->fixed by shape: every converting path is fptosi(v*65536 +- 0.5) with the offset matching the sign of the path's input range. The statement's two clauses contradict each other on 2^31-1 <= |x| < 2^31 (identity vs NaN); the library follows the NaN clause", "5 (C05), 6"),
 "C06": ("proof", AI + "; predicate refinement both ways", "six comparisons, sentinels, isnan, unary minus, abs over [-NaN,NaN]", "5 (C06)"),
 "C07": ("proof", AI + "; trap-site reachability with alarm-driven value partitioning", "every sanitizer trap site and table load reachable from any public entry point is unreachable for all inputs of the precondition box, per configuration (c++17, c++17 + abacus, c++20, and c++20 with the constant-evaluation arms compiled as ordinary code)", "3, 5 (C07), 11.11"),
 "C08": ("other", "static analysis: clang-query AST rules (constexpr closure, false const/pure attributes) over the instantiated driver TU; " + AI + "; summary equivalence of the -std=c++17 and -std=c++20 builds", "constexpr closure in K17A/K20; c++17 vs c++20 summary equivalence of every wrapper; fmuladd contraction safety; no UB (optimisation-level independence); the two sqrt algorithms differ by 0 or 1 ulp (abacus == floor(sqrt(65536 raw)) by inductive loop invariant, std within 0.5 + 2^-19 by shape lemma). Constant evaluation vs run time: the is_constant_evaluated() arms compiled as ordinary code (configuration K20C) equal the run-time arms by summary equivalence (262 wrappers with identical IR, 6 compared); -std=c++2b against -std=c++20 likewise. Code generators trusted. 10 recorded findings (lookup-table family not constexpr)", "5 (C08), 6, 7"),
 "C09": ("proof", AI + "; range-reduction structure (congruence, window, abstract re-execution); cell-wise interval automatic differentiation of the idealised result expression with a rounding budget, against a big-integer interval oracle", "exact periodicity on |x| < 2^46; accuracy 4 ulp + r^9/9! and |result| <= 1 for every |x| <= 2 pi (9652 cells); cos through sin(x + pi/2): every clause decided", "11.1, 11.7"),
 "C10": ("proof", AI + "; summary equivalence for oddness; range-reduction structure for the period; pole paths; cell-wise interval automatic differentiation of the idealised result expression with a rounding budget against an interval oracle", "tan odd, period phi, NaN exactly at the pole, and |tan_lib - tan| <= 2.5 ulp (1+tan^2) on |x| <= pi (4321 cells + 192 near-pole arguments): every clause decided", "11.1, 11.7"),
 "C11": ("proof", AI + "; summary equivalence (oddness); per-quadrant boxes with value partitioning of the quotient; cell-wise interval automatic differentiation of the idealised result expression against an interval oracle; abstract re-execution of atan / its series on the quotient symbol; linear bound of the quotient", "atan odd; |atan_lib - atan| <= 5e-5 on all of [0,2^63) (17469 cells); atan2 axis values, (0,0) NaN, quadrant signs, and atan2 == atan(q) + quadrant offset hence within 8e-5; |atan| <= fixpidiv2 by series-of-quotient composition; x <= y => atan x <= atan y + 2 from exact cell-end values, rounding budgets and exact segment-end results: every clause decided", "5 (C11), 6"),
 "C12": ("proof", AI + "; region checks on in-program relations; verified loop summary isqrt(N) for the abacus sqrt loop; cell-wise interval automatic differentiation of the idealised result expression (incl. the floating sqrt / the integer square root) against an interval oracle; direction (monotonicity) tags propagated through the path's instructions", "NaN exactly for |x| > 1; asin odd, acos within 1 ulp of pi/2 - asin, and the 2-ulp/4-ulp backward/forward accuracy clause, for the std::sqrt and the abacus builds (1317 + 1321 cells + 160 arguments near 1 each); asin non-decreasing by direction tags of every SSA value (monotone compositions) plus junction values: every clause decided", "5 (C12), 6"),
 "C13": ("proof", AI + "; loop unrolling with control-aware joins; shape lemma on the value-numbered float expression; inductive loop invariant of the abacus loop checked by abstract execution of one iteration per digit position from a symbolic loop-head state", "NaN below 0, 0 at 0, result in [0,2^16] on the domain for both algorithms; < 1 ulp, monotone, exact squares: std::sqrt algorithm by shape lemma, abacus loop == floor(sqrt(65536 raw)) by the invariant a^2 <= N < (a + 2^(k+1))^2 (32 digit positions, 48 entry classes): every clause decided", "5 (C13), 6"),
 "C14": ("other", AI + "; summary equivalence (symmetry); per-instruction unsigned-wrap tracking; symbolic exact-real value (polynomial identity) plus interval propagation of rounding noise for the accuracy clause", "symmetry (all builds; the abacus loop enters as the verified summary isqrt(N)), never NaN/negative, no intermediate wrap in hypot's own arithmetic (one recorded finding: left-shift branch); accuracy 2 ulp / relative 1.5e-4: the exact-real value of every path is identically sqrt(a^2+b^2) (polynomial identity) and the propagated rounding deviation stays within the bound on 11.5k boxes per build (paths of the recorded wrap excluded)", "5 (C14), 6, 7"),
 "C15": ("proof", AI + "; region checks and summary equivalence", "floor/ceil bracket, integrality, fixed points, ceil == -floor(-x) on the whole stated domain", "5 (C15)"),
 "C16": ("translation_validation", AI + "; summary equivalence of mixed-type operator vs explicitly promoted program; static_assert type witnesses", "9 carriers x 4 operators x 2 orders + 36 compound forms + double operand order", "5 (C16)"),
 "C17": ("proof", AI + "; summary equivalence / region checks on composed wrappers", "commutativity, a-b==a+(-b), identities, associativity and cancellation on the no-NaN regions; n-fold sum by instances + induction lemma", "5 (C17)"),
 "C19": ("proof", "static analysis: exhaustive lint of the 1233 table literals in the linked IR against a big-integer interval oracle; " + AI + " for the index mapping and for the partition of the argument space into constant-result cells", "all table literals and extents; index congruent to d mod 360 for every int32 d; sqrt_aprox 2% and atan_index_aprox 1.25 by exhaustive partition into constant-result cells: every clause decided", "5 (C19), 6"),
 "C18": ("proof", AI + "; per-shift-count region checks", "x>>r == floor(x/2^r) and x<<r exact-or-same-sign for each r in 0..63, NaN for r<0, & is bitwise and", "5 (C18)"),
 "C20": ("proof", AI + "; region checks on returned forms; summary equivalence across argument carriers; interval oracle for the pi constant", "angle_to_radians exact form and NaN domain for all 8 integral carriers, < 2 ulp of d*pi/180; integral and fixed_t carriers agree for sin/cos/tan_angle on |d| <= 360; the widened accuracy bounds for all 721 integer degrees by constant propagation; float carrier: f(float v) == f(fixed_t(v)) as programs and fixed_t(float(d)) == 65536 d for the 721 degrees: every clause decided", "5 (C20), 6"),
}
PENDING = {}
NA_REASON = "check under construction in this session (see DESIGN.md section 5); not claimed until it runs clean"


def main():
    m = {
     "version": 1,
     "setup_cmd": "true",
     "hooks": {
      "guard": "ARTURBAC_FIXED_MATH_VERIF",
      "enable": "no hooks are needed: the analysis only adds compiler flags (clang -fsanitize=... -fsanitize-trap=all -emit-llvm); the guard is declared but unused",
      "baseline_off_cmd": "ctest --test-dir /repo/_build -j8 --timeout 900",
      "source_commits": [],
      "add_only": True
     },
     "engines": [
      {"name": "fxai", "path": "fxai/", "serves_properties": sorted(CHECKS),
       "kind_free_text": "path-sensitive abstract interpreter over fully inlined, UBSan-instrumented LLVM IR built from /repo on every run (clang 14, llvm-link, opt always-inline/inline/sroa); python3 only"}
     ],
     "checks": [],
     "not_applicable": [],
     "notes": "All checks are static: no deciding step executes library code; concrete evaluation of the IR is used only to confirm an alarm as a violation (DESIGN.md section 4). known_findings.txt lists repaired defects (fixed:) and recorded findings."
    }
    for pid in sorted(CHECKS):
        lvl, tech, text, ref = CHECKS[pid]
        m["checks"].append({
            "property_id": pid,
            "quick_cmd": "./fx check %s --tier quick" % pid,
            "thorough_cmd": "./fx check %s --tier thorough" % pid,
            "evidence_file": "evidence/%s.json" % pid,
            "replay_cmd_template": "./fx replay {path}",
            "engine": "fxai",
            "technique": tech,
            "level_claimed": {"category": lvl, "text": text, "design_ref": "DESIGN.md " + ref},
            "level_note": NOTE,
        })
    for i in range(1, 21):
        pid = "C%02d" % i
        if pid not in CHECKS:
            m["not_applicable"].append({"property_id": pid, "reason": PENDING.get(pid, NA_REASON)})
    json.dump(m, open(os.path.join(ROOT, "MANIFEST.json"), "w"), indent=1)


if __name__ == "__main__":
    main()
