"""Rigorous enclosures of pi, sin, cos, tan, sqrt, atan with big-integer interval arithmetic.

A number is an interval (lo, hi) of integers scaled by SC = 2^PREC; every operation rounds outward.
Used as the mathematical oracle for the table literals (C19) and for the one-sided method-error rule.
"""
from fractions import Fraction

PREC = 256
SC = 1 << PREC


def iv(x):
    """exact rational -> interval"""
    f = Fraction(x)
    lo = (f.numerator * SC) // f.denominator
    hi = -((-f.numerator * SC) // f.denominator)
    return (lo, hi)


def add(a, b):
    return (a[0] + b[0], a[1] + b[1])


def sub(a, b):
    return (a[0] - b[1], a[1] - b[0])


def neg(a):
    return (-a[1], -a[0])


def mul(a, b):
    cs = [a[0] * b[0], a[0] * b[1], a[1] * b[0], a[1] * b[1]]
    lo, hi = min(cs), max(cs)
    return (lo >> PREC, -((-hi) >> PREC))


def div(a, b):
    if b[0] <= 0 <= b[1]:
        raise ZeroDivisionError("interval division by an interval containing 0")
    cs = []
    for x in a:
        for y in b:
            cs.append(Fraction(x * SC, y))
    lo, hi = min(cs), max(cs)
    return (lo.numerator // lo.denominator, -((-hi.numerator) // hi.denominator))


def scale_int(a, k):
    if k >= 0:
        return (a[0] * k, a[1] * k)
    return (a[1] * k, a[0] * k)


def div_int(a, k):
    if k > 0:
        return (a[0] // k, -((-a[1]) // k))
    return div_int(neg(a), -k)


def to_frac(a):
    return Fraction(a[0], SC), Fraction(a[1], SC)


def _atan_inv(n):
    """atan(1/n) for integer n >= 2 by the alternating series, enclosure"""
    x = iv(Fraction(1, n))
    term = x
    s = term
    n2 = n * n
    k = 1
    sign = -1
    # alternating with decreasing terms: the remainder is bounded by the first omitted term
    while True:
        term = div_int(term, n2)
        t = div_int(term, 2 * k + 1)
        if t[1] <= 1:
            break
        s = add(s, scale_int(t, sign))
        sign = -sign
        k += 1
    return (s[0] - 4, s[1] + 4)


_PI = None


def pi():
    global _PI
    if _PI is None:
        # Machin: pi/4 = 4 atan(1/5) - atan(1/239)
        a = scale_int(_atan_inv(5), 4)
        b = _atan_inv(239)
        _PI = scale_int(sub(a, b), 4)
    return _PI


def _pow_pos(x, n):
    """x >= 0 interval"""
    r = (SC, SC)
    for _ in range(n):
        r = mul(r, x)
    return r


def sin_cos(x):
    """enclosures of sin and cos of an interval x with |x| <= 8 (Taylor with Lagrange remainder)"""
    # reduce sign: use series directly with interval arithmetic on powers (x may be negative: use x2 = x*x)
    x2 = mul(x, x)
    if x2[0] < 0:
        x2 = (0, x2[1])
    N = 60
    # sin
    term = x
    s = term
    c_term = (SC, SC)
    c = c_term
    for k in range(1, N):
        term = div_int(mul(term, x2), (2 * k) * (2 * k + 1))
        s = add(s, term) if k % 2 == 0 else sub(s, term)
        c_term = div_int(mul(c_term, x2), (2 * k - 1) * (2 * k))
        c = add(c, c_term) if k % 2 == 0 else sub(c, c_term)
    # remainder: |x|^(2N+1)/(2N+1)!  is far below 2^-PREC for |x| <= 8 and N = 60; add a guard band
    g = 1 << 16
    s = (max(s[0] - g, -SC), min(s[1] + g, SC))
    c = (max(c[0] - g, -SC), min(c[1] + g, SC))
    return s, c


def sin_deg(i):
    x = div_int(scale_int(pi(), i), 180)
    return sin_cos(x)[0]


def cos_deg(i):
    x = div_int(scale_int(pi(), i), 180)
    return sin_cos(x)[1]


def tan_frac_pi(num, den):
    """tan(num*pi/den)"""
    x = div_int(scale_int(pi(), num), den)
    s, c = sin_cos(x)
    return div(s, c)


def isqrt(n):
    import math
    return math.isqrt(n)


def sqrt_iv(a):
    lo = isqrt(max(a[0], 0) * SC)
    hi = isqrt(a[1] * SC) + 1
    return (lo, hi)


def atan_iv(x):
    """atan of a rational interval with |x| small enough for fast convergence is not needed here;
    use atan(x) = 2*atan(x / (1 + sqrt(1+x^2))) twice, then the series"""
    def half(v):
        one = (SC, SC)
        r = sqrt_iv(add(one, mul(v, v)))
        return div(v, add(one, r))
    neg_ = x[1] < 0
    if x[0] < 0 < x[1]:
        raise ValueError("sign-straddling atan argument")
    v = neg(x) if neg_ else x
    k = 0
    while v[1] > SC // 4 and k < 8:
        v = half(v)
        k += 1
    v2 = mul(v, v)
    term = v
    s = term
    n = 1
    sign = -1
    while True:
        term = mul(term, v2)
        t = div_int(term, 2 * n + 1)
        if abs(t[1]) <= 4 and abs(t[0]) <= 4:
            break
        s = add(s, scale_int(t, sign))
        sign = -sign
        n += 1
        if n > 2000:
            break
    s = (s[0] - 64, s[1] + 64)
    s = scale_int(s, 1 << k)
    return neg(s) if neg_ else s


def within(entry, target, scale, tol):
    """is |entry - scale*target| <= tol for sure (True), surely not (False), or undecided (None)?
    target is an interval, tol a Fraction or int"""
    t = scale_int(target, scale)
    e = entry * SC
    tl = iv(tol)
    # worst-case distance
    dmax = max(abs(e - t[0]), abs(e - t[1]))
    dmin = 0 if t[0] <= e <= t[1] else min(abs(e - t[0]), abs(e - t[1]))
    if dmax <= tl[0]:
        return True
    if dmin > tl[1]:
        return False
    return None


# ---- small helpers on intervals of Fractions (lo, hi) used by the cell-wise accuracy proofs
def fi(x):
    x = Fraction(x)
    return (x, x)


def fadd(a, b):
    return (a[0] + b[0], a[1] + b[1])


def fsub(a, b):
    return (a[0] - b[1], a[1] - b[0])


def fmul(a, b):
    cs = (a[0] * b[0], a[0] * b[1], a[1] * b[0], a[1] * b[1])
    return (min(cs), max(cs))


def fscale(a, k):
    k = Fraction(k)
    return (a[0] * k, a[1] * k) if k >= 0 else (a[1] * k, a[0] * k)


def fdiv(a, b):
    if b[0] <= 0 <= b[1]:
        raise ZeroDivisionError
    cs = (a[0] / b[0], a[0] / b[1], a[1] / b[0], a[1] / b[1])
    return (min(cs), max(cs))


def fabsmax(a):
    return max(abs(a[0]), abs(a[1]))


def sin_cos_f(xlo, xhi):
    """enclosures (Fractions, outward rounded to 2^-PREC) of sin and cos over the rational interval [xlo, xhi], width < 1:
    evaluated at the midpoint and widened by the half width (|sin'|,|cos'| <= 1)"""
    mid = (Fraction(xlo) + Fraction(xhi)) / 2
    half = (Fraction(xhi) - Fraction(xlo)) / 2
    s, c = sin_cos(iv(mid))
    sl, sh = to_frac(s)
    cl_, ch = to_frac(c)
    return (sl - half, sh + half), (cl_ - half, ch + half)


def asin_iv(x):
    """enclosure of asin of a rational interval inside [0, 1]: asin x = atan(x / sqrt(1 - x^2)), pi/2 at 1"""
    lo, hi = x
    one = (SC, SC)

    def at(v):
        if v >= SC:
            p = pi()
            return div_int(p, 2)
        if v <= 0:
            return (0, 0)
        vv = (v, v)
        s = sqrt_iv(sub(one, mul(vv, vv)))
        return atan_iv(div(vv, s))
    a = at(lo)
    b = at(hi)
    return (a[0], b[1])
