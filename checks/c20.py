"""C20: degree helpers: angle_to_radians exact-form / NaN domain for all integral carriers; integral and fixed_t carriers of
the same degree value give the same sin_angle/cos_angle/tan_angle; the accuracy of the 721 integer degree values by constant
propagation; the float carrier by program equivalence with fixed_t(v) plus the 721 conversions: every clause decided."""
from fractions import Fraction
from . import common, lib, realmath as R
from .lib import M, E, sym
from .c09 import const_of
from fxai.interp import Broken
from spec import entry as ENT

EXTRA = [E("w_phi", [], "fx", "return phi.v;")]
for f in ("sin_angle", "cos_angle", "tan_angle"):
    EXTRA.append(E("w_%s_fxi" % f, ["i32"], "fx", "return %s(as_fixed(static_cast<int64_t>(a) * 65536)).v;" % f))
    EXTRA.append(E("w_%s_fxf32" % f, ["f32"], "fx", "return %s(fixed_t(a)).v;" % f))
EXTRA.append(E("w_ctor_if32", ["i32"], "fx", "return fixed_t(static_cast<float>(a)).v;"))


def n_regions(t, lo, hi):
    """regions of the parameter bit pattern p0 whose mathematical value n lies in [lo,hi] / outside; yields (name, cons, nform)"""
    p = sym(0)
    N = ENT.BITS[t]
    out = []
    if t[0] == "i":
        a, z = max(lo, ENT.tmin(t)), min(hi, ENT.tmax(t))
        out.append(("in", [(p, a, z)], p))
        if ENT.tmin(t) < lo:
            out.append(("below", [(p, None, lo - 1)], None))
        if ENT.tmax(t) > hi:
            out.append(("above", [(p, hi + 1, None)], None))
    else:
        half = (1 << (N - 1)) - 1
        out.append(("in", [(p, max(lo, 0), min(hi, half))], p))
        if half > hi:
            out.append(("above", [(p, hi + 1, None)], None))
        # negative bit patterns are n = p + 2^N > half
        if (1 << N) - 1 > hi and half + 1 > hi:
            out.append(("above-high", [(p, None, -1)], None))
        elif half < hi:
            out.append(("in-high", [(p, None, min(hi, (1 << N) - 1) - (1 << N))], p.addc(1 << N)))
    return out


def run(tier, seed):
    V = common.Verdict("C20", tier, seed)
    configs = ["K17", "K20"] if tier == "quick" else ["K17", "K17A", "K20"]
    info = {}
    for cfg in configs:
        try:
            ctx = lib.Ctx(cfg, EXTRA)
            phi = const_of(ctx, "w_phi")
            # numeric lemma: floor(d*phi/180) is within 1 + d*|phi - 65536*pi|/180 of 65536*d*pi/180
            plo, phi_hi = R.to_frac(R.pi())
            dev = max(abs(Fraction(phi) - 65536 * plo), abs(Fraction(phi) - 65536 * phi_hi))
            bound = 1 + 360 * dev / 180
            V.oblige(bound < 2)
            if not bound < 2:
                V.violation("pi constant", "phi", "phi.v = %d: floor(d*phi/180) can be %.4f ulp away from d*pi/180 at d = 360 (allowed 2)" % (phi, float(bound)))
            info[cfg] = {"phi": phi, "radians_error_bound_ulp": float(bound)}
            for t in ENT.INTS:
                r = ctx.run("w_a2r_" + t)
                regs = []
                for nm, cons, nf in n_regions(t, 0, 360):
                    if nf is None:
                        regs.append((nm, cons, ("const", M)))
                    else:
                        regs.append((nm, cons, ("diff", 180, nf.scale(phi), -179, 0)))
                N = ENT.BITS[t]

                def bad(a, o, t=t, N=N):
                    n = a[0] + (1 << N) if (t[0] == "u" and a[0] < 0) else a[0]
                    ex = (n * phi) // 180 if 0 <= n <= 360 else M
                    return o != ("ret", ex)
                lib.check_regions(V, r, regs, bad, "angle_to_radians<%s>(d) == floor(d*phi/180) for 0 <= d <= 360, NaN otherwise" % t,
                                  site="angle_to_radians")
            if cfg == configs[0] or tier != "quick":
                info[cfg]["degree_values_decided"] = degree_accuracy(V, ctx, cfg, phi)
            # carriers agree: integral T versus fixed_t carrying the same degree value
            for f in ("sin_angle", "cos_angle", "tan_angle"):
                ref = ctx.run("w_%s_fxi" % f, [("i", -360, 360)])
                for t in ENT.INTS:
                    lo = max(-360, ENT.tmin(t))
                    hi = min(360, ENT.tmax(t))
                    if t[0] == "u":
                        hi = min(hi, (1 << (ENT.BITS[t] - 1)) - 1)
                    ra = ctx.run("w_%s_%s" % (f, t), [("i", lo, hi)])
                    rb = ctx.run("w_%s_fxi" % f, [("i", lo, hi)])
                    lib.check_equiv(V, ra, rb, "%s(%s d) == %s(fixed_t d) for |d| <= 360" % (f, t, f), site=f)
            # float carrier: (A) f(float v) is the same program as f(fixed_t(v)) for every float v (summary equivalence), and
            # (B) fixed_t(float(d)) == 65536 d for each of the 721 integers |d| <= 360 (constant propagation through the float
            # conversion, exact rounding of the singleton intervals); f(fixed_t carrying d) is the reference of the loop above
            from fxai import pipeline as P
            rc = ctx.run("w_ctor_if32", [("i", -360, 360)])
            conv_ok = True
            for d in range(-360, 361):
                rs = rc.an.run(P.init_state(rc.an.fn, [("i", d, d)]))
                vals = set(lib.ret_rng(q) for q in rs.paths)
                if not (vals == {(65536 * d, 65536 * d)} and not rs.alarms):
                    conv_ok = False
                    break
            nb = 0
            for f in ("sin_angle", "cos_angle", "tan_angle"):
                ra = ctx.run("w_%s_f32" % f)
                rb = ctx.run("w_%s_fxf32" % f)
                if len(ra.paths) < 5:
                    V.broke("w_%s_f32 [%s]: only %d paths" % (f, cfg, len(ra.paths)))
                # fast route: lemma A on a scratch verdict (it quantifies over every float, more than the property asks for)
                VA = common.Verdict("C20", tier, seed)
                lib.check_equiv(VA, ra, rb, "%s(float v) == %s(fixed_t(v))" % (f, f), site=f)
                if conv_ok and VA.obligations and VA.discharged == VA.obligations and not VA.violations and not VA.inconclusive:
                    V.oblige(True, VA.obligations + 721)
                    info[cfg].setdefault("float_carrier_route", {})[f] = "program equivalence + 721 conversions"
                    continue
                # exact route: the 721 degree values one by one, float carrier against the fixed_t carrier
                info[cfg].setdefault("float_carrier_route", {})[f] = "721 degree values by constant propagation"
                rfx = ctx.run("w_%s_fxi" % f, [("i", -360, 360)])
                for d in range(-360, 361):
                    r1 = ra.an.run(P.init_state(ra.an.fn, [("f", float(d), float(d), False)]))
                    r2 = rfx.an.run(P.init_state(rfx.an.fn, [("i", d, d)]))
                    v1 = set(lib.ret_rng(q) for q in r1.paths)
                    v2 = set(lib.ret_rng(q) for q in r2.paths)
                    ok = len(v1) == 1 and v1 == v2 and next(iter(v1))[0] == next(iter(v1))[1] and not r1.alarms and not r2.alarms
                    V.oblige(ok)
                    if not ok:
                        nb += 1
                        o1, o2 = ra.conc((float(d),)), rfx.conc((d,))
                        if o1 != o2:
                            V.violation("integer, float and fixed_t arguments carrying the same d give the same result", f,
                                        "%s(float %d) [%s] %s but %s(fixed_t %d) %s" % (f, d, cfg, lib.out_str(o1), f, d, lib.out_str(o2)),
                                        lib.rp(ra, (float(d),), "float carrier agrees with fixed_t carrier"))
                        elif nb <= 3:
                            V.inconc("w_%s_f32 [%s]: degree %d not decided by constant propagation (%s vs %s)" % (f, cfg, d, sorted(v1)[:2], sorted(v2)[:2]))
            info[cfg]["float_carrier_degrees"] = 721 - nb
        except Broken as e:
            V.broke("%s: %s" % (cfg, e))
    # the long long / unsigned long long spellings of the 64-bit operand are distinct types on LP64: same programs as int64_t / uint64_t
    from . import spell
    for cfg_ in (configs[:1] if tier == "quick" else configs):
        try:
            spell.check(V, cfg_, "angle", "angle helpers")
        except Broken as e:
            V.broke("spellings %s: %s" % (cfg_, e))
    expl = ("DECIDED: angle_to_radians<T> for the 8 integral carriers: on the box 0 <= d <= 360 (d the mathematical operand value) the returned "
            "form q satisfies -179 <= 180*q - phi.v*d <= 0, i.e. q == floor(d*phi.v/180); every other value of the type returns NaN; with "
            "|phi.v - 65536*pi| bounded by the interval oracle this is within 1 + 2*|phi.v - 65536*pi| < 2 ulp of d*pi/180. "
            "sin_angle/cos_angle/tan_angle: for every integral carrier and |d| <= 360 the inlined program equals the program that passes the "
            "same d as a fixed_t (summary equivalence), so integer and fixed_t arguments give the same result. Accuracy: the 721 integer "
            "degrees (int32 carrier; the other integral carriers and fixed_t are equal to it) form a finite set and are decided one by one by "
            "constant propagation against the interval oracle: sin_angle/cos_angle within the C09 bound + 3 ulp, tan_angle within "
            "5 ulp (1+tan^2) (odd multiples of 90 degrees excluded: pole). Float carrier: either f(float v) and f(fixed_t(v)) are the same program for every "
            "float v (summary equivalence: the mixed operator converts first) and fixed_t(float(d)) == 65536 d for each of the 721 integers "
            "|d| <= 360 (constant propagation with exact rounding of the float conversion and of v*65536 +- 0.5), or - when that stronger "
            "statement does not hold - the 721 degree values are decided one by one, float carrier against fixed_t carrier, by constant "
            "propagation; so the float carrier agrees with the fixed_t and integral carriers (sin_angle(double) does not compile: not an input the functions are defined on). "
            "Every clause of C20 is decided.")
    expl = expl + ' The `long long` / `unsigned long long` spellings of a 64-bit integral operand (distinct types on LP64) are compared with the int64_t / uint64_t wrappers by summary equivalence; spellings the library does not compile for are listed in the evidence as not defined.'
    return V.finish("proof", expl, "./fx check C20 --tier %s" % tier, extra={"configs": configs, "constants": info})


def degree_accuracy(V, ctx, cfg, phi):
    """sin_angle / cos_angle / tan_angle for the 721 integers |d| <= 360: a finite set, decided by constant propagation (abstract
    interpretation on singleton boxes) against the interval oracle; bounds: C09 + 3 ulp, C10 with constant 5 ulp."""
    from fxai import pipeline as P
    pil, pih = R.to_frac(R.pi())
    n = 0
    for f in ("sin_angle", "cos_angle", "tan_angle"):
        r = ctx.run("w_%s_i32" % f, [("i", -360, 360)])
        an = r.an
        for d in range(-360, 361):
            if f == "tan_angle" and d % 180 == 90:
                continue                       # odd multiples of 90 degrees: the pole of tan, no bound to meet
            rs = an.run(P.init_state(an.fn, [("i", d, d)]))
            vals = set(lib.ret_rng(q) for q in rs.paths)
            ok = False
            got = None
            if len(vals) == 1 and not rs.alarms:
                lo, hi = next(iter(vals))
                if lo == hi:
                    got = lo
                    x = R.div_int(R.scale_int(R.pi(), d), 180)
                    s, c = R.sin_cos(x)
                    if f == "tan_angle":
                        t = R.div(s, c)
                        tl, th = R.to_frac(t)
                        bd = 5 * (1 + min(tl * tl, th * th) if tl * th > 0 else 1)
                    else:
                        tl, th = R.to_frac(s if f == "sin_angle" else c)
                        # r = |asin(value)|: distance of d degrees (sin) / d+90 degrees (cos) from the nearest multiple of 180
                        dd = d if f == "sin_angle" else d + 90
                        k = dd % 180
                        rdeg = min(k, 180 - k)
                        rr = Fraction(rdeg) * pih / 180
                        bd = 4 + 3 + 65536 * rr ** 9 / 362880
                    ok = 65536 * tl - bd <= got <= 65536 * th + bd
            V.oblige(ok)
            n += 1
            if not ok:
                out = r.conc((d,))
                V.violation("%s(d) accuracy for integer degrees" % f, f, "%s(%d) [%s] = %s: outside the widened bound" % (f, d, cfg, lib.out_str(out)),
                            lib.rp(r, (d,), "degree accuracy"))
    return n
