"""Range-reduction structure (C09, C10): f(x) == f(r(x)) with r(x) congruent to x modulo m and confined to one window.

For every path of the entry point we look for an intermediate value r of that path such that
  (1) r == x (mod m)          -- remainder symbols are replaced by their base forms, the difference must be a constant multiple of m
  (2) r lies in a window W    -- the hull of all r over all paths has at most m integers
  (3) the path returns exactly what the entry point itself returns for the argument r (abstract re-execution of the
      inlined entry point with the parameter bound to the form r; the returned forms must be identical)
Then f(x) = G(r(x)) with G the library's own behaviour on W, and r(x) is a function of x mod m, so f(x + k*m) == f(x)
bit for bit whenever both arguments are in the domain."""
from fractions import Fraction
import random
from fxai import pipeline as P
from fxai.state import IntV, Infeasible
from fxai.lin import Lin, term_args
from fxai.interp import Broken
from . import lib
from .lib import sym


def subst_rem(lin, m):
    out = Lin.const(Fraction(lin.cn, lin.d))
    changed = True
    cur = lin
    for _ in range(6):
        out = Lin.const(Fraction(cur.cn, cur.d))
        changed = False
        for s, k in cur.t.items():
            co = Fraction(k, cur.d)
            ta = term_args(s) if isinstance(s, str) else None
            if ta is not None and ta[0] == "rem+" and ta[2] == m:
                cn, d, items = ta[1]
                out = out.add(Lin(cn, dict(items), d).scale(co))
                changed = True
            else:
                out = out.add(Lin.sym(s).scale(co))
        cur = out
        if not changed:
            break
    return cur


def congruent(lin, x, m):
    d = subst_rem(lin, m).sub(x)
    return d.is_const() and not isinstance(d.c, Fraction) and d.c % m == 0


def candidates(p, x, m):
    """intermediate 64 bit values of the path that are congruent to x modulo m (deduplicated by form)"""
    seen = {}
    for name, v in p.state.env.items():
        if isinstance(v, IntV) and v.w == 64 and v.lin.d == 1:
            k = v.lin.key()
            if k in seen:
                continue
            if congruent(v.lin, x, m):
                seen[k] = v
    return list(seen.values())


def reexec(run, st, rlin):
    """paths of the entry point re-executed with the parameter bound to rlin under the symbol bounds of st"""
    an = run.an
    init = P.init_state_from(an.fn, st, {0: rlin})
    old = an.res if hasattr(an, "res") else None
    try:
        res = an.run(init)
    finally:
        pass
    return res


def check_reduction(V, run, m, domain_note, clause, site):
    x = sym(0)
    wlo = whi = None
    found = []
    for p in run.paths:
        ok = False
        best = None
        cands = candidates(p, x, m)
        # the reduced argument is the last congruent value the path computes: try the latest definitions first
        cands.reverse()
        for v in cands:
            try:
                rlo, rhi = p.state.rng(v)
            except Infeasible:
                continue
            if rhi - rlo + 1 > m:
                continue
            if v.lin.key() == x.key():
                ok = True
                best = (v, rlo, rhi)
                break
            try:
                res = reexec(run, p.state, v.lin)
            except (Broken, Infeasible):
                continue
            if not res.paths or res.alarms:
                continue
            same = True
            for q in res.paths:
                st = lib.join_states(p.state, q.state)
                if st is None:
                    continue
                if not lib.same_value(st, p.ret, q.ret):
                    same = False
                    break
            if same:
                ok = True
                best = (v, rlo, rhi)
                break
        V.oblige(ok)
        if ok:
            v, rlo, rhi = best
            wlo = rlo if wlo is None else min(wlo, rlo)
            whi = rhi if whi is None else max(whi, rhi)
            found.append((p, v))
            if len(V.samples) < 10:
                d = lib.describe_path(p)
                d.update({"wrapper": run.name, "clause": clause, "reduced_argument": str(v.lin)[:100], "range": [rlo, rhi], "modulus": m})
                V.sample(d)
        else:
            d = lib.describe_path(p)
            # counter-example search: f(x) != f(x + m) for x in this path's box
            cx = run

            def bad(a, o):
                o2 = cx.conc((a[0] + m,))
                o3 = cx.conc((a[0] - m,))
                return (o2[0] == "ret" and o[0] == "ret" and o2[1] != o[1]) or (o3[0] == "ret" and o[0] == "ret" and o3[1] != o[1])
            args, out = lib.search(run, p.state, bad, random.Random(V.seed), limit=4000)
            if args is not None:
                o2 = run.conc((args[0] + m,))
                o3 = run.conc((args[0] - m,))
                V.violation(clause, site, "%s: f(%d) = %s but f(%d) = %s, f(%d) = %s (period %d) [%s]" % (
                    run.name, args[0], lib.out_str(out), args[0] + m, lib.out_str(o2), args[0] - m, lib.out_str(o3), m, run.ctx.config),
                    lib.rp(run, args, clause))
            else:
                V.inconc("%s: no intermediate value r with r == x (mod %d), |range| <= %d and f(x) == f(r) found on path %s" % (
                    run.name, m, m, d))
    if wlo is not None:
        ok = whi - wlo + 1 <= m
        V.oblige(ok)
        if not ok:
            # two congruent reduced arguments may be produced for arguments that differ by a multiple of m
            def bad2(a, o):
                o2 = run.conc((a[0] + m,))
                return o2[0] == "ret" and o[0] == "ret" and o2[1] != o[1]
            hit = None
            # residues with two representatives inside the window: x and x + m for x in [wlo, whi - m]
            ov = list(range(wlo, min(whi - m, wlo + 20000) + 1))
            for x0 in ov:
                o1 = run.conc((x0,))
                o2 = run.conc((x0 + m,))
                if o1[0] == "ret" and o2[0] == "ret" and o1[1] != o2[1]:
                    hit = ((x0,), o1)
                    break
            for p, v in (found if hit is None else []):
                args, out = lib.search(run, p.state, bad2, random.Random(V.seed), limit=3000)
                if args is not None:
                    hit = (args, out)
                    break
            if hit is None and whi - m - wlo + 1 <= 64:
                # finitely many residues have two representatives in the window: decide each by constant propagation
                # (abstract interpretation of the entry point on singleton boxes)
                agree = True
                for x0 in range(wlo, whi - m + 1):
                    vals = []
                    for xx in (x0, x0 + m):
                        rs = run.an.run(P.init_state(run.an.fn, [("i", xx, xx)]))
                        rr = set(lib.ret_rng(q) for q in rs.paths)
                        vals.append(rr)
                    if len(vals[0]) != 1 or vals[0] != vals[1] or next(iter(vals[0]))[0] != next(iter(vals[0]))[1]:
                        agree = False
                        break
                if agree:
                    V.discharged += 1
                    V.notes.append("window exceeds the period by %d value(s); the residues with two representatives were decided by constant propagation" % (whi - wlo + 1 - m))
                    return wlo, whi
            if hit:
                args, out = hit
                V.violation(clause, site, "%s: reduced arguments span [%d,%d] (%d values > period %d) and f(%d) = %s differs from f(%d) = %s" % (
                    run.name, wlo, whi, whi - wlo + 1, m, args[0], lib.out_str(out), args[0] + m, lib.out_str(run.conc((args[0] + m,)))),
                    lib.rp(run, args, clause))
            else:
                V.inconc("%s: reduced arguments span [%d,%d]: %d values, more than the period %d, and no concrete disagreement found" % (
                    run.name, wlo, whi, whi - wlo + 1, m))
    return wlo, whi
