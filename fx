#!/usr/bin/env python3
"""fx: single entry point of the static verification machinery.
   ./fx check <Cnn> [--tier quick|thorough]      ./fx replay <file>
"""
import sys
import os
import importlib
sys.path.insert(0, os.path.dirname(os.path.abspath(__file__)))
sys.setrecursionlimit(20000)


def main(argv):
    if len(argv) < 2:
        print(__doc__)
        return 2
    if argv[1] == "check":
        from checks import common
        prop = argv[2].upper()
        tier, seed = common.tier_seed(argv)
        try:
            mod = importlib.import_module("checks." + prop.lower())
        except ImportError as e:
            print("ANALYSIS-BROKEN property=%s no check module: %s" % (prop, e))
            return 2
        try:
            return mod.run(tier, seed)
        except Exception as e:
            import traceback
            traceback.print_exc()
            print("ANALYSIS-BROKEN property=%s %s" % (prop, e))
            return 2
    if argv[1] == "replay":
        from fxai import replay
        return replay.main(argv[2])
    print(__doc__)
    return 2


if __name__ == "__main__":
    sys.exit(main(sys.argv))
